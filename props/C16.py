"""C16 — TURN relaying is transparent: payload and peer address survive wrap/unwrap."""
import json, os, struct
import vlib

COQ_TARGETS = ["Props/Properties_C16.vo", "Turn/Extract_Turn.vo"]      # what `./check setup` builds for this property (the extraction feeds the OCaml driver)
META = dict(
    text="Coq theorems (Props/Properties_C16.v) over an executable byte-level model of socket/udp-turn.c (coq/Turn/TurnModel.v) and an "
         "independent relay specification written from RFC 5766 and the draft/Google/MSN/OC2007 variants (coq/Turn/Relay.v): what the "
         "socket emits for a payload decodes at the relay to exactly (peer, payload) for every payload up to 65000 bytes, IPv4/IPv6 peer, "
         "compatibility mode, with or without a bound channel; what the relay encodes is handed up as (payload, peer); data for a peer "
         "without permission is queued and flushed in order when CreatePermission is answered (success, error, after 401/438 rounds) or "
         "times out, for every interleaving (invariant over all event sequences); every read of a received packet is inside it (checked "
         "accessor), for every byte string and source address. Two confirmed defects of the Send-request framing (GOOGLE/MSN) are refuted "
         "by witness and registered as known findings; the two ChannelData over-reads were fixed in /repo (7dada38). The model is tied to the "
         "current source on every run by differential execution against the real udp-turn.c over a scripted base socket, virtual clock, "
         "ASan with exactly-sized receive buffers, plus an independent python relay/peer oracle.",
    note="trusted: Coq kernel, extraction (ExtrOcamlBasic only), the hand-written model (tied by sampling, not proof), the harness (scripted "
         "base socket, interposed clock, counter transaction ids, constant stand-in for HMAC-SHA1: MESSAGE-INTEGRITY is an opaque trailer), "
         "the python RFC codec used as oracle. Not modelled: TCP base sockets / RFC 4571 reassembly, ChannelBind retransmission and refresh.",
    technique="Coq proof over executable model + independent relay specification; extracted-model/implementation differential correspondence")

FINISH = dict(
    level="proof",
    trusted=["hand-written model coq/Turn/TurnModel.v of socket/udp-turn.c (+ the parts of stun/stunmessage.c, stunagent.c it uses), tied to the "
             "code by differential execution (extracted OCaml via ExtrOcamlBasic only; Z kept inductive; TimerModel of C19 reused) against the real "
             "udp-turn.c driven over a scripted base NiceSocket with an interposed clock_gettime and a private GMainContext",
             "relay specification coq/Turn/Relay.v written from RFC 5766 (Send/Data indication, ChannelData), draft-rosenberg-midcom-turn-08 "
             "(Google/MSN Send request, Data indication 0x0115) and [MS-TURN] (unaligned attributes)",
             "MESSAGE-INTEGRITY is not byte-modelled: harness links its own stun_sha1/stun_hash_creds (constant 20 x 0x5a) and a counter for "
             "transaction ids instead of stun/stunhmac.c, stun/rand.c; the model's mi_value is that opaque trailer",
             "OCaml 4.13.1, gcc 12 + ASan (-fsanitize-recover=address, reports counted through __asan_on_error) / UBSan, GLib 2.74 main loop, "
             "the python generator, RFC codec and relay/peer oracle in props/C16.py",
             "not modelled (model answers Unmodelled, generator stays away): retransmission/time-out of ChannelBind and Set-Active-Destination, "
             "540 s channel refresh, reliable base sockets (RFC 4571 framing/reassembly), base-socket send failures"],
    rule="case = (compat, credentials, op list of send/bind/relay-packet/clock-advance/realm-nonce ops); generators: wrap boundary lengths x "
         "v4/v6 x 5 modes x bound/unbound, relay-encoded Data indications and ChannelData, permission queue interleavings with "
         "success/error/401/438/time-out, permission expiry, saved-id exhaustion, hostile relay stream; non-trivial = at least one datagram "
         "reached the base socket or one packet was handed up; distinct by case text",
    assumptions=["base socket is unreliable (UDP) and its sends succeed",
                 "transparency of the Send-request framing of GOOGLE/MSN holds for payload lengths divisible by 4 only (known finding)",
                 "raw data on a locked GOOGLE/MSN/OC2007 channel must not itself be a valid TURN control message (inherent to that protocol)",
                 "fewer than 200 unanswered requests (STUN_AGENT_MAX_SAVED_IDS) for the Send-request framing (known finding otherwise)"])

DRIVER = ["zutil_z.ml.in", "turn_driver.ml"]
# ASan reports are counted, not fatal (a report becomes the token "R!").  UBSan's nonnull-attribute check is off: an empty payload makes
# compact_message (agent.c) call memcpy (g_malloc (0) = NULL, p, 0) -- reported in notes/C16.md, outside C16's statement.
XFLAGS = ["-fsanitize-recover=address", "-fno-sanitize=nonnull-attribute"]
SERVER = "4c00002010d96"
COOKIE = bytes.fromhex("2112a442")
TURN_COOKIE = bytes.fromhex("72c64bc6")
MI = b"\x5a" * 20
DRAFT9, GOOGLE, MSN, OC2007, RFC5766 = range(5)

# verdicts of the oracle for the confirmed defects (constant strings; known/C16.json matches on TRIGGER[...]).
# W_CHAN_LEN / W_SHORT were fixed in /repo by 7dada38 ("fixed" entries suppress nothing: if they come back they are violations);
# their minimised triggers stay in CORPUS, which runs first.
W_CHAN_LEN = "sanitizer: ChannelData length field exceeds the received packet (udp-turn.c recv: copies min(len, declared) from offset 4)"
W_SHORT = "sanitizer: packet shorter than 4 bytes read as a ChannelData header while a channel is bound (udp-turn.c recv:)"
W_PADDED = "relay receives DATA padded to a multiple of 4: Send request of GOOGLE/MSN mode writes the aligned length (stun_message_append, no cookie)"
W_IDS = "payload sent un-relayed to the peer address: 200 Send requests unanswered (stun_agent_finish_message returned 0, error pass-through)"
TRIGGER = {W_CHAN_LEN: "channeldata-length-exceeds-packet", W_SHORT: "short-packet-read-as-channeldata-header",
           W_PADDED: "send-request-data-length-padded", W_IDS: "send-request-saved-ids-exhausted"}


def prebuild():
    m, o = vlib.ocaml_build("turn_model", "turn_model", DRIVER)
    return None if m else o


def build_impl():
    srcs = [s for s in vlib.AGENT_SRCS + vlib.SOCKET_SRCS + vlib.STUN_SRCS + ["agent/agent-enum-types.c"]
            if s not in ("stun/stunhmac.c", "stun/rand.c")]
    objs, l = vlib.repo_objects(srcs, variant="san-rec", extra=XFLAGS)
    if not objs:
        return None, l
    return vlib.link("turn_h", ["turn_h.c"], objs, extra=XFLAGS)


# --------------------------------------------------------------------------------------------------
# independent STUN / TURN codec (python), written from the RFCs
# --------------------------------------------------------------------------------------------------
def hx(b):
    return b.hex() if b else "-"


def addr_tok(a):
    fam, ip, port = a
    return ("6" if fam == 6 else "4") + ip.hex() + struct.pack(">H", port).hex()


def tok_addr(t):
    raw = bytes.fromhex(t[1:])
    return (6, raw[:16], struct.unpack(">H", raw[16:18])[0]) if t[0] == "6" else (4, raw[:4], struct.unpack(">H", raw[4:6])[0])


def enc_addr_attr(a, xor_id=None):
    fam, ip, port = a
    if xor_id is not None:
        port ^= 0x2112
        key = COOKIE if fam == 4 else xor_id
        ip = bytes(x ^ y for x, y in zip(ip, key))
    return bytes([0, 2 if fam == 6 else 1]) + struct.pack(">H", port) + ip


def dec_addr_attr(v, xor_id=None):
    if len(v) < 4:
        return None
    fam = v[1]
    if fam == 1 and len(v) == 8:
        ip, f = v[4:8], 4
    elif fam == 2 and len(v) == 20:
        ip, f = v[4:20], 6
    else:
        return None
    port = struct.unpack(">H", v[2:4])[0]
    if xor_id is not None:
        port ^= 0x2112
        ip = bytes(x ^ y for x, y in zip(ip, COOKIE if f == 4 else xor_id))
    return (f, ip, port)


def attr(t, v, aligned=True):
    return struct.pack(">HH", t, len(v)) + v + (b"\0" * ((-len(v)) % 4) if aligned else b"")


def stun(mtype, id16, attrs):
    body = b"".join(attrs)
    return struct.pack(">HH", mtype, len(body)) + id16 + body


def parse_stun(b, aligned=True):
    """RFC 5389 section 6/15 framing: returns (type, id16, [(atype, value)]) or None."""
    if len(b) < 20 or b[0] >> 6:
        return None
    mtype, mlen = struct.unpack(">HH", b[:4])
    if 20 + mlen != len(b):
        return None
    out, off = [], 20
    while off < len(b):
        if off + 4 > len(b):
            return None
        t, l = struct.unpack(">HH", b[off:off + 4])
        if off + 4 + l > len(b):
            return None
        out.append((t, b[off + 4:off + 4 + l]))
        off += 4 + l + (((-l) % 4) if aligned else 0)
    if off != len(b):
        return None
    return mtype, b[4:20], out


def first(attrs, t):
    for a, v in attrs:
        if a == t:
            return v
    return None


def realm_id(compat):
    return 0x15 if compat == OC2007 else 0x14


def nonce_id(compat):
    return 0x14 if compat == OC2007 else 0x15


class Relay:
    """A standards-following relay + the peers behind it, fed with what the TURN socket hands to the base socket.
    RFC 5766 for DRAFT9/RFC5766; Send request / raw-after-Set-Active-Destination for the old variants."""

    def __init__(self, compat):
        self.compat = compat
        self.rfc = compat in (DRAFT9, RFC5766)
        self.aligned = compat != OC2007
        self.chan_req = {}      # tid -> (channel, peer) of ChannelBind requests seen
        self.chans = {}         # channel -> peer (installed)
        self.perm_req = {}      # tid -> peer
        self.perms = set()
        self.now = 0            # virtual ms, advanced by the oracle on T ops
        self.perm_asked = {}    # peer -> time of the latest CreatePermission request
        self.perm_realm = {}    # tid -> REALM the request carried
        self.perm_answered = set()   # peers whose CreatePermission got a final answer (success or error other than 401/438)
        self.perm_granted = {}  # peer -> time of the latest successful CreatePermission answer (permission lifetime at the relay: 300 s, RFC 5766 section 8)
        self.lapsed = []        # Send indications that reached the relay after the peer's permission had lapsed with no request to renew it
        self.early = []         # data that reached the relay while the peer's first request was young and unanswered
        self.active_req = {}    # tid -> peer   (Set Active Destination)
        self.send_req = {}      # tid -> (peer, options)
        self.active = None
        self.delivered = []     # (peer, payload) in the order the peers receive them
        self.unrelayed = []     # datagrams that went somewhere else than the server
        self.garbage = []       # datagrams the relay cannot make sense of

    def datagram(self, to, b):
        if addr_tok(to) != SERVER:
            self.unrelayed.append((to, b))
            return
        if self.rfc:
            if len(b) >= 4 and 0x40 <= b[0] <= 0x7f:
                ch, l = struct.unpack(">HH", b[:4])
                if ch in self.chans and len(b) >= 4 + l:
                    self.delivered.append((self.chans[ch], b[4:4 + l]))
                    self.check_held(self.chans[ch])
                else:
                    self.garbage.append(b)
                return
            m = parse_stun(b)
            if m is None or m[1][:4] != COOKIE:
                self.garbage.append(b)
                return
            mtype, id16, at = m
            if mtype == 0x0016:
                pa, d = first(at, 0x12), first(at, 0x13)
                peer = dec_addr_attr(pa, id16) if pa is not None else None
                if peer is None or d is None:
                    self.garbage.append(b)
                else:
                    self.delivered.append((peer, d))
                    self.check_held(peer)
                    if self.compat == RFC5766 and peer in self.perm_granted and self.now - max(self.perm_granted[peer], self.perm_asked.get(peer, 0)) > 300000:
                        self.lapsed.append(peer)
            elif mtype == 0x0008:
                pa = first(at, 0x12)
                self.perm_req[id16] = dec_addr_attr(pa, id16) if pa is not None else None
                self.perm_realm[id16] = first(at, 0x14)
                self.perm_asked[self.perm_req[id16]] = self.now
            elif mtype == 0x0009:
                pa, cn = first(at, 0x12), first(at, 0x0c)
                if pa is not None and cn is not None and len(cn) == 4:
                    self.chan_req[id16] = (struct.unpack(">H", cn[:2])[0], dec_addr_attr(pa, id16))
            else:
                self.garbage.append(b)
        else:
            m = parse_stun(b, self.aligned)
            is_turn = m is not None and first(m[2], 0x0f) == TURN_COOKIE
            if is_turn and m[0] == 0x0004:
                da, d = first(m[2], 0x11), first(m[2], 0x13)
                peer = dec_addr_attr(da) if da is not None else None
                if peer is None or d is None:
                    self.garbage.append(b)
                else:
                    self.delivered.append((peer, d))
                    op = first(m[2], 0x8001)
                    self.send_req[m[1]] = (peer, op is not None and len(op) == 4 and op[3] & 1)
            elif is_turn and m[0] == 0x0006:
                da = first(m[2], 0x11)
                self.active_req[m[1]] = dec_addr_attr(da) if da is not None else None
            elif self.active is not None:
                self.delivered.append((self.active, b))
            else:
                self.garbage.append(b)

    def check_held(self, peer):
        """RFC 5766 mode of the socket: data for a peer must not leave before a CreatePermission request for that peer
        has been answered or has had time to time out (first retransmission is due after 500 ms)."""
        if self.compat != RFC5766 or peer in self.perm_answered:
            return
        t = self.perm_asked.get(peer)
        if t is None or self.now - t < 500:
            self.early.append(peer)

    def answered(self, pkt):
        """the relay (i.e. the generator) sent [pkt]: update the relay state a compliant relay would have."""
        m = parse_stun(pkt, self.aligned)
        if m is None:
            return
        mtype, id16, at = m
        if self.rfc:
            if mtype == 0x0109 and id16 in self.chan_req:
                ch, peer = self.chan_req[id16]
                self.chans[ch] = peer
            elif mtype == 0x0108 and id16 in self.perm_req:
                self.perms.add(self.perm_req[id16])
                self.perm_answered.add(self.perm_req[id16])
                self.perm_granted[self.perm_req[id16]] = self.now
            elif mtype == 0x0118 and id16 in self.perm_req:
                # 438, and 401 naming another realm than the request did, ask for a new request; everything else is final
                e = first(at, 0x09)
                code = (e[2] & 7) * 100 + e[3] if e is not None and len(e) >= 4 else 0
                rr = first(at, 0x14)
                if not (code == 438 or (code == 401 and not (rr and rr == self.perm_realm.get(id16)))):
                    self.perm_answered.add(self.perm_req[id16])
        else:
            if mtype == 0x0106 and id16 in self.active_req and self.compat in (MSN, OC2007):
                self.active = self.active_req[id16]
            elif mtype == 0x0104 and id16 in self.send_req and self.compat == GOOGLE:
                peer, opt = self.send_req[id16]
                o = first(at, 0x8001)
                if opt and o is not None and len(o) == 4 and o[3] & 1:
                    self.active = peer


def data_indication(compat, peer, payload, rng, order=0, software=False):
    """what a compliant relay sends for a datagram from [peer]."""
    if compat in (DRAFT9, RFC5766):
        id16 = COOKIE + bytes(rng.randrange(256) for _ in range(12))
        at = [attr(0x12, enc_addr_attr(peer, id16)), attr(0x13, payload)]
        if order:
            at.reverse()
        if software:
            at.insert(rng.randrange(3), attr(0x8022, b"relay"))
        return stun(0x0017, id16, at)
    al = compat != OC2007
    id16 = bytes(rng.randrange(256) for _ in range(16))
    at = [attr(0x12, enc_addr_attr(peer), al), attr(0x13, payload, al)]
    if order:
        at.reverse()
    return stun(0x0115, id16, [attr(0x0f, TURN_COOKIE, al)] + at)


# --------------------------------------------------------------------------------------------------
# case generation
# --------------------------------------------------------------------------------------------------
def rnd_peer(rng, v6=None):
    if v6 is None:
        v6 = rng.random() < 0.4
    if v6:
        ip = rng.choice([bytes.fromhex("20010db8000000000000000000000001"), bytes(rng.randrange(256) for _ in range(16)),
                         bytes.fromhex("2112a442") + bytes(12), bytes(15) + b"\x01"])
        return (6, ip, rng.choice([0x2112, 1, 65535, 3478, rng.randrange(1, 65536)]))
    ip = rng.choice([bytes([192, 168, 0, rng.randrange(1, 255)]), bytes.fromhex("2112a442"), bytes(rng.randrange(256) for _ in range(4)), bytes([10, 0, 0, 1])])
    return (4, ip, rng.choice([0x2112, 0x1221, 1, 65535, 3478, rng.randrange(1, 65536)]))


LENS = [0, 1, 2, 3, 4, 5, 7, 8, 19, 20, 21, 100, 576, 1199, 1200, 1280, 1472, 1500]
BIGLENS = [4096, 9000, 16384, 32767, 32768, 50000, 64999, 65000]


def rnd_payload(rng, n=None, big=False):
    if n is None:
        n = rng.choice(LENS + [rng.randrange(0, 1500)]) if not big else rng.choice(BIGLENS)
    k = rng.random()
    if k < 0.2:
        # STUN look-alike: header with a consistent length and (often) the magic cookie
        body = max(0, n - 20)
        h = struct.pack(">HH", rng.choice([0x0001, 0x0101, 0x0016, 0x0017, 0x0004, 0x0115, 0x0108, 0x0009]), body if rng.random() < 0.7 else rng.randrange(65536))
        h += (COOKIE if rng.random() < 0.7 else bytes(rng.randrange(256) for _ in range(4))) + bytes(rng.randrange(256) for _ in range(12))
        p = (h + bytes(rng.randrange(256) for _ in range(body)))[:n]
        return p + bytes(n - len(p))
    if k < 0.3:
        # ChannelData look-alike
        p = struct.pack(">HH", rng.choice([0x4000, 0x4001, 0x7fff]), max(0, n - 4)) + bytes(rng.randrange(256) for _ in range(max(0, n - 4)))
        return p[:n] + bytes(max(0, n - len(p)))
    if k < 0.4:
        return bytes([rng.choice([0, 0x80, 0xff, 0x16])]) * n
    if n > 3000:
        seed = bytes(rng.randrange(256) for _ in range(64))
        return (seed * (n // 64 + 1))[:n]
    return bytes(rng.randrange(256) for _ in range(n))


def creds(rng, compat):
    user = rng.choice([b"user", b"u", b"alice:example.org", b""]) if compat != GOOGLE else rng.choice([b"user", b"gtalkuser1234567", b""])
    pw = rng.choice([b"pass", b"", b"secret1"])
    return user, pw


class Script:
    """builds one case line; keeps just enough bookkeeping to aim relay answers (the oracle does not use it)."""

    def __init__(self, rng, compat, user=None, pw=None):
        self.rng, self.compat = rng, compat
        u, p = creds(rng, compat)
        self.user = u if user is None else user
        self.pw = p if pw is None else pw
        self.ops = []
        self.al = compat != OC2007
        self.keyed = compat != GOOGLE and len(self.pw) > 0
        self.have_rn = False

    def line(self, cid):
        return "%s %d %s %s %s" % (cid, self.compat, hx(self.user), hx(self.pw), " ".join(self.ops))

    def S(self, peer, p):
        self.ops.append("S:%s:%s" % (addr_tok(peer), hx(p)))

    def B(self, peer):
        self.ops.append("B:%s" % addr_tok(peer))

    def T(self, ms):
        self.ops.append("T:%d" % ms)

    def T_long(self, ms):
        """[ms] of virtual time the way a running main loop sees it: half-second steps while a request may be retransmitted (its timers then fire when
        due, not all at once after a jump), then steps of at most 30 s (a periodic GLib source re-arms from the moment it is dispatched)."""
        for _ in range(18):
            if ms <= 0:
                return
            self.T(min(500, ms)); ms -= 500
        while ms > 0:
            self.T(min(30000, ms)); ms -= 30000

    def drain(self):
        """three clock jumps of at least the longest retransmission wait: every CreatePermission still pending times out."""
        for _ in range(3):
            self.T(self.rng.choice([1000, 1001, 1500, 2500]))

    def K(self, realm=b"example.org", nonce=b"n0nce"):
        self.ops.append("K:%s:%s" % ("~" if realm is None else hx(realm), "~" if nonce is None else hx(nonce)))
        self.have_rn = bool(realm) and bool(nonce)

    def R(self, frm, tmpl):
        self.ops.append("R:%s:%s" % (frm if isinstance(frm, str) else addr_tok(frm), tmpl if tmpl else "-"))

    def auth_tail(self, mi=True):
        """attributes that make a success response pass stun_agent_validate when a key is in use."""
        if not self.keyed or not mi:
            return b""
        t = b""
        if self.compat in (DRAFT9, RFC5766, OC2007):
            t += attr(realm_id(self.compat), b"example.org", self.al) + attr(0x06, self.user or b"u", self.al)
        return t + attr(0x08, MI, self.al)

    def resp(self, mtype, ref, body=b"", mi=True, j=0):
        """response template: header, {ref.j} placeholder for the transaction id, attributes."""
        tail = body + self.auth_tail(mi)
        return struct.pack(">HH", mtype, len(tail)).hex() + "{%04x.%d}" % (ref, j) + tail.hex()

    def err(self, mtype, ref, code, realm=None, nonce=None, j=0, mi=None):
        body = attr(0x09, bytes([0, 0, code // 100, code % 100]) + b"err", self.al)
        if realm is not None:
            body += attr(realm_id(self.compat), realm, self.al)
        if nonce is not None:
            body += attr(nonce_id(self.compat), nonce, self.al)
        if mi is None:
            mi = code not in (400, 401, 438, 300)
        return self.resp(mtype, ref, body, mi, j)

    def cookie(self):
        return attr(0x0f, TURN_COOKIE, self.al)


def gen_wrap(rng, cid):
    compat = rng.randrange(5)
    sc = Script(rng, compat)
    big = rng.random() < 0.04
    bound = rng.random() < 0.5
    peer = rnd_peer(rng)
    if compat in (DRAFT9, RFC5766) and rng.random() < 0.6:
        sc.K()
    if compat == OC2007 and rng.random() < 0.6:
        sc.ops.append("M:%s" % hx(rng.choice([b"ocs.example.com", b"r", b""])))
        if rng.random() < 0.7:
            sc.ops.append("C:%s" % hx(bytes(rng.randrange(256) for _ in range(24))))
    n = 1 if big else rng.randrange(1, 5)
    if bound:
        sc.B(peer)
        if compat in (DRAFT9, RFC5766):
            sc.R(SERVER, sc.resp(0x0109, 0x0009))
        elif compat == GOOGLE:
            sc.S(peer, rnd_payload(rng, rng.choice([0, 4, 8, 20, 100])))
            sc.R(SERVER, sc.resp(0x0104, 0x0004, sc.cookie() + attr(0x8001, b"\0\0\0\1")))
        else:
            sc.R(SERVER, sc.resp(0x0106, 0x0006, sc.cookie()))
    for _ in range(n):
        sc.S(peer, rnd_payload(rng, big=big))
    if compat == RFC5766:
        k = rng.random()
        if k < 0.5:
            sc.R(SERVER, sc.resp(0x0108, 0x0008))
        elif k < 0.7:
            sc.R(SERVER, sc.err(0x0118, 0x0008, 403))
    sc.drain()
    return sc.line(cid), "wrap-%s-%s-%s%s" % (["draft9", "google", "msn", "oc2007", "rfc5766"][compat], "v6" if peer[0] == 6 else "v4",
                                               "bound" if bound else "unbound", "-big" if big else "")


def gen_unwrap(rng, cid):
    compat = rng.randrange(5)
    sc = Script(rng, compat)
    peers = [rnd_peer(rng) for _ in range(rng.randrange(1, 3))]
    bound = rng.random() < 0.5
    if bound:
        sc.B(peers[0])
        if compat in (DRAFT9, RFC5766):
            sc.R(SERVER, sc.resp(0x0109, 0x0009))
        elif compat == GOOGLE:
            sc.S(peers[0], rnd_payload(rng, 8))
            sc.R(SERVER, sc.resp(0x0104, 0x0004, sc.cookie() + attr(0x8001, b"\0\0\0\1")))
        else:
            sc.R(SERVER, sc.resp(0x0106, 0x0006, sc.cookie()))
    big = rng.random() < 0.04
    for _ in range(1 if big else rng.randrange(1, 5)):
        p = rnd_payload(rng, big=big)
        if len(p) > 65000:
            p = p[:65000]
        if bound and compat in (DRAFT9, RFC5766) and rng.random() < 0.6:
            # RFC 5766 11.5: over UDP a ChannelData message MAY carry padding, which the length field does not count
            pad = rng.choice([b"", b"", bytes((-len(p)) % 4), bytes(rng.randrange(256) for _ in range(rng.randrange(1, 8)))])
            sc.R(SERVER, (struct.pack(">HH", 0x4000, len(p)) + p + pad).hex())
        elif bound and compat not in (DRAFT9, RFC5766) and rng.random() < 0.6:
            if p[:1] and p[0] >= 64:      # raw data on the locked channel (not STUN-like)
                sc.R(SERVER, p.hex())
            else:
                sc.R(SERVER, data_indication(compat, peers[0], p, rng).hex())
        else:
            sc.R(SERVER, data_indication(compat, rng.choice(peers), p, rng, order=rng.randrange(2), software=rng.random() < 0.2).hex())
    sc.drain()
    return sc.line(cid), "unwrap-%s-%s%s" % (["draft9", "google", "msn", "oc2007", "rfc5766"][compat], "bound" if bound else "unbound", "-big" if big else "")


def gen_queue(rng, cid):
    """RFC5766 permission queue: several peers, sends interleaved with answers, re-auth rounds, time-outs."""
    sc = Script(rng, RFC5766)
    if rng.random() < 0.7:
        sc.K()
    peers = [rnd_peer(rng) for _ in range(rng.randrange(1, 4))]
    if rng.random() < 0.3:
        sc.B(peers[0])
        sc.R(SERVER, sc.resp(0x0109, 0x0009))
    kinds = set()
    for _ in range(rng.randrange(2, 14)):
        k = rng.random()
        if k < 0.5:
            sc.S(rng.choice(peers), rnd_payload(rng, rng.choice([0, 1, 3, 4, 5, 20, 100, 1200])))
        elif k < 0.62:
            sc.R(SERVER, sc.resp(0x0108, 0x0008, j=rng.randrange(0, 3))); kinds.add("ok")
        elif k < 0.70:
            sc.R(SERVER, sc.err(0x0118, 0x0008, rng.choice([403, 400, 437, 508, 500]), j=rng.randrange(0, 2))); kinds.add("err")
        elif k < 0.78:
            sc.R(SERVER, sc.err(0x0118, 0x0008, rng.choice([401, 438]), realm=rng.choice([b"example.org", b"other.org", b""]),
                                nonce=rng.choice([b"n0nce", b"fresh", b""]), j=rng.randrange(0, 2))); kinds.add("reauth")
        elif k < 0.9:
            sc.T(rng.choice([1, 100, 499, 500, 501, 999, 1000, 1500, 1999, 2000, 2001, 5000])); kinds.add("time")
        elif k < 0.95:
            sc.R(SERVER, data_indication(RFC5766, rng.choice(peers + [rnd_peer(rng)]), rnd_payload(rng, 20), rng).hex())
        else:
            sc.R(SERVER, sc.resp(0x0108, 0x0008, mi=False)); kinds.add("nomi")
    sc.drain()
    return sc.line(cid), "queue-" + ("+".join(sorted(kinds)) or "plain")


def gen_expiry(rng, cid):
    """permission refresh timer (240 s): permissions are dropped and re-created, data queued again."""
    sc = Script(rng, RFC5766)
    if rng.random() < 0.5:
        sc.K()
    peer = rnd_peer(rng)
    if rng.random() < 0.4:
        sc.T(rng.choice([1, 249, 250, 251, 999]))
    bound = rng.random() < 0.4
    if bound:
        sc.B(peer)
        sc.R(SERVER, sc.resp(0x0109, 0x0009))
    sc.S(peer, rnd_payload(rng, 20))
    sc.R(SERVER, sc.resp(0x0108, 0x0008))
    sc.T(rng.choice([239000, 239999, 240000, 240001, 241000, 100000]))
    sc.S(peer, rnd_payload(rng, 21))
    if rng.random() < 0.5:
        sc.R(SERVER, sc.resp(0x0108, 0x0008))
    sc.T(rng.choice([2500, 141000]))
    sc.S(peer, rnd_payload(rng, 5))
    # long sessions: the 240 s refresh must keep coming (the relay forgets a permission 300 s after granting it)
    for _ in range(0 if bound else rng.choice([0, 1, 2, 3, 5])):      # (the refresh of a channel binding is outside the model)
        for _ in range(rng.randrange(1, 4)):
            sc.T_long(rng.choice([60000, 100000, 120000, 200000, 239000]))
            if rng.random() < 0.3:
                sc.S(peer, rnd_payload(rng, 7))
        sc.S(peer, rnd_payload(rng, 9))
        if rng.random() < 0.8:
            sc.R(SERVER, sc.resp(0x0108, 0x0008))
    sc.drain()
    return sc.line(cid), "permission-expiry"


def gen_ids(rng, cid):
    """GOOGLE/MSN: Send requests stay registered for 8 s unless answered; the 201st unanswered one cannot be finished."""
    compat = rng.choice([GOOGLE, MSN])
    sc = Script(rng, compat)
    peer = rnd_peer(rng)
    n = rng.choice([199, 200, 201, 203])
    for i in range(n):
        sc.S(peer, bytes([i & 255]) * 4)
        if rng.random() < 0.02:
            sc.R(SERVER, sc.resp(0x0104, 0x0004, sc.cookie(), j=rng.randrange(0, 3)))
        if rng.random() < 0.02:
            sc.T(rng.choice([10, 100]))
    sc.T(rng.choice([100, 7000, 8100]))
    for i in range(3):
        sc.S(peer, bytes([0xee, i, 0, 0]))
    return sc.line(cid), "saved-ids-exhaustion"


def mutate(rng, b):
    b = bytearray(b)
    k = rng.random()
    if k < 0.25 and b:
        del b[rng.randrange(len(b)):]                       # truncate
    elif k < 0.45 and len(b) >= 4:
        struct.pack_into(">H", b, 2, rng.choice([0, 1, 3, 4, len(b), len(b) - 19, len(b) - 21, 65535, rng.randrange(65536)]) % 65536)   # wrong length
    elif k < 0.6 and b:
        for _ in range(rng.randrange(1, 4)):
            b[rng.randrange(len(b))] = rng.randrange(256)
    elif k < 0.7 and len(b) >= 8:
        b[4:8] = bytes(rng.randrange(256) for _ in range(4))   # wrong magic cookie
    elif k < 0.8:
        b += bytes(rng.randrange(256) for _ in range(rng.randrange(1, 9)))
    elif k < 0.9 and len(b) > 24:
        i = rng.randrange(20, len(b))
        b[i:i] = b[20:rng.randrange(21, len(b))]            # duplicated attribute bytes
    return bytes(b)


def gen_hostile(rng, cid):
    compat = rng.randrange(5)
    sc = Script(rng, compat)
    rfc = compat in (DRAFT9, RFC5766)
    peer = rnd_peer(rng)
    if rfc and rng.random() < 0.5:
        sc.K()
    st_bound = rng.random() < 0.6
    if st_bound:
        sc.B(peer)
        if rfc:
            sc.R(SERVER, sc.resp(0x0109, 0x0009))
        elif compat == GOOGLE:
            sc.S(peer, rnd_payload(rng, 8))
            sc.R(SERVER, sc.resp(0x0104, 0x0004, sc.cookie() + attr(0x8001, b"\0\0\0\1")))
        else:
            sc.R(SERVER, sc.resp(0x0106, 0x0006, sc.cookie()))
    if rng.random() < 0.6:
        sc.S(rnd_peer(rng) if rng.random() < 0.5 else peer, rnd_payload(rng, 12))      # something pending
    kinds = set()
    for _ in range(rng.randrange(1, 8)):
        frm = SERVER if rng.random() < 0.8 else rnd_peer(rng)
        k = rng.random()
        p = rnd_payload(rng, rng.choice([0, 1, 2, 3, 4, 5, 8, 20, 24, 100]))
        if k < 0.18:
            n = rng.choice([1, 2, 3])
            pkt = rng.choice([bytes([0x40, 0x00, 0x00])[:n], bytes(rng.randrange(256) for _ in range(n)), bytes([0x00, 0x01, 0x00])[:n]])
            sc.R(frm, pkt.hex()); kinds.add("tiny")
        elif k < 0.36:
            decl = rng.choice([len(p), len(p) + 1, len(p) + 4, len(p) + 100, 65535, max(0, len(p) - 1), 0, 4, 5])
            sc.R(frm, (struct.pack(">HH", rng.choice([0x4000, 0x4000, 0x4001, 0x7fff, 0x8000, 0x0000]), decl) + p).hex()); kinds.add("channeldata")
        elif k < 0.5:
            sc.R(frm, mutate(rng, data_indication(compat, peer, p, rng, rng.randrange(2))).hex()); kinds.add("data-ind-mutated")
        elif k < 0.6:
            # Data indication with missing / duplicated attributes
            al = compat != OC2007
            id16 = (COOKIE + bytes(12)) if rfc else bytes(16)
            pa = attr(0x12, enc_addr_attr(peer, id16 if rfc else None), al)
            da = attr(0x13, p, al)
            at = rng.choice([[pa], [da], [pa, pa, da], [da, da, pa], [], [pa, da, da], [attr(0x12, b"\0\1\0", al), da], [attr(0x12, bytes(8) , al), da],
                             [attr(0x12, b"\0\3" + bytes(6), al), da], [pa, attr(0x7f00, b"zz", al), da], [attr(0x08, MI, al), pa, da]])
            if not rfc:
                at = ([attr(0x0f, TURN_COOKIE, al)] if rng.random() < 0.8 else [attr(0x0f, b"\0\0\0\0", al)]) + at
            sc.R(frm, stun(0x0017 if rfc else 0x0115, id16, at).hex()); kinds.add("data-ind-attrs")
        elif k < 0.75:
            # responses: matched / unmatched ids, good / bad / short integrity, unknown attributes
            ref, mt = rng.choice([(0x0008, 0x0108), (0x0008, 0x0118), (0x0009, 0x0109), (0x0009, 0x0119), (0x0004, 0x0104), (0x0006, 0x0106), (0x0006, 0x0116), (0x0004, 0x0114)])
            body = b""
            if mt & 0x10:
                body += attr(0x09, bytes([0, 0, rng.choice([3, 4, 5, 0, 7]), rng.choice([0, 1, 38, 37, 99, 100])]) + b"x" * rng.randrange(0, 3), sc.al)
            if not rfc and rng.random() < 0.8:
                body = sc.cookie() + body
            if rng.random() < 0.3:
                body += attr(rng.choice([0x7f01, 0x8022, 0x0e, 0x1b]), b"ab", sc.al)
            mi = rng.choice([None, MI, MI[:19] + b"\0", b"", MI[:4], MI + b"\x5a\x5a\x5a\x5a"])
            if mi is not None:
                if rng.random() < 0.7 and compat in (DRAFT9, RFC5766, OC2007):
                    body += attr(realm_id(compat), b"example.org", sc.al) + attr(0x06, sc.user or b"u", sc.al)
                body += attr(0x08, mi, sc.al)
            if rng.random() < 0.2:
                body += attr(0x8028, b"\0\0\0\0", sc.al)
            hdr = struct.pack(">HH", mt, len(body)).hex()
            sc.R(frm, hdr + ("{%04x.%d}" % (ref, rng.randrange(0, 2)) if rng.random() < 0.8 else bytes(16).hex()) + body.hex()); kinds.add("response")
        elif k < 0.85:
            sc.R(frm, bytes(rng.randrange(256) for _ in range(rng.choice([4, 7, 19, 20, 21, 24, 28, 60]))).hex()); kinds.add("random")
        elif k < 0.95:
            sc.R(frm, p.hex()); kinds.add("lookalike")
        else:
            sc.S(peer, rnd_payload(rng, 9))
    sc.drain()
    return sc.line(cid), "hostile-" + "+".join(sorted(kinds))


CORPUS = [
    # the two confirmed over-reads, the padded DATA length, basic flows of every mode
    ("k0 4 75736572 - B:4c0a800010400 R:4c00002010d96:01090000{0009.0} R:4c00002010d96:40000064aabbccdd", "corpus-known"),
    ("k1 4 75736572 - B:4c0a800010400 R:4c00002010d96:01090000{0009.0} R:40a0a0a0a0001:4000", "corpus-known"),
    ("k2 1 75736572 70617373 S:4c0a800010400:68656c6c6f", "corpus-known"),
    ("k3 4 75736572 70617373 S:620010db8000000000000000000000001ffff:68656c6c6f T:500 T:1000 T:500 T:5000", "corpus"),
    ("k4 3 75736572 70617373 M:6f6373 C:000102030405060708090a0b0c0d0e0f1011121381000000 S:4c0a800010400:68656c6c6f S:4c0a800010400:01", "corpus"),
    # further minimised triggers of the defects fixed by 7dada38: length field one too large, 1- and 3-byte packets, v6 peer / DRAFT9
    ("k5 0 75736572 - B:620010db80000000000000000000000010001 R:4c00002010d96:01090000{0009.0} R:4c00002010d96:4000000501020304 R:4c00002010d96:400000040102030405", "corpus-known"),
    ("k6 4 75736572 - B:4c0a800010400 R:4c00002010d96:01090000{0009.0} R:4c00002010d96:40", "corpus-known"),
    ("k7 4 75736572 - B:4c0a800010400 R:4c00002010d96:01090000{0009.0} R:4c00002010d96:400000", "corpus-known"),
]


def gen_cases(rng, tier):
    n = 12000 if tier == "quick" else 200000
    cs = list(CORPUS)
    for i in range(n):
        r = rng.random()
        cid = "c%d" % i
        if r < 0.25:
            cs.append(gen_wrap(rng, cid))
        elif r < 0.42:
            cs.append(gen_unwrap(rng, cid))
        elif r < 0.64:
            cs.append(gen_queue(rng, cid))
        elif r < 0.68:
            cs.append(gen_expiry(rng, cid))
        elif r < 0.685:
            cs.append(gen_ids(rng, cid))
        else:
            cs.append(gen_hostile(rng, cid))
    return cs


# --------------------------------------------------------------------------------------------------
# implementation-side oracle: states the property on the implementation's output alone
# --------------------------------------------------------------------------------------------------
def split_out(line, out):
    """pair each op with its output tokens.  Returns (compat, [(op, head, [(to, bytes)])]) ; head None = op not reached."""
    t = line.split()
    compat, ops = int(t[1]), t[4:]
    toks = out.split()[1:]
    res, i = [], 0
    for op in ops:
        if i >= len(toks):
            res.append((op, None, []))
            continue
        head = toks[i]; i += 1
        dg = []
        while i < len(toks) and toks[i].startswith(">"):
            a, _, h = toks[i][1:].partition(":")
            dg.append((tok_addr(a), vlib.unhex(h)))
            i += 1
        res.append((op, head, dg))
    return compat, res


def expand_template(tmpl, log):
    """{TTTT.j} -> bytes 4..19 of the j-th most recent datagram whose first two bytes are TTTT."""
    out, i = bytearray(), 0
    if tmpl == "-":
        return b""
    while i < len(tmpl):
        if tmpl[i] == "{":
            j = tmpl.index("}", i)
            ty, k = int(tmpl[i + 1:i + 5], 16), int(tmpl[i + 6:j])
            tid = bytes(16)
            for d in reversed(log):
                if len(d) >= 20 and d[0] == ty >> 8 and d[1] == ty & 255:
                    if k == 0:
                        tid = d[4:20]
                        break
                    k -= 1
            out += tid
            i = j + 1
        else:
            out.append(int(tmpl[i:i + 2], 16)); i += 2
    return bytes(out)


def oracle(line, out, kind):
    """a compliant relay and the peers behind it are fed with what reached the base socket; sends are registered
    before their datagrams are decoded (a send may be delivered within the same op)."""
    if out is None:
        return None
    structured = not kind.startswith("hostile")
    compat, steps = split_out(line, out)
    rfc = compat in (DRAFT9, RFC5766)
    relay = Relay(compat)
    expected, log = {}, []
    for op, head, dgs in steps:
        f = op.split(":")
        if head is None:
            break
        pkt = expand_template(f[2], log) if f[0] == "R" else None
        if head.startswith("T?"):
            return "generator left the modelled range :: %s" % head
        if head.startswith("R!"):
            if head == "R!abort":
                return "assertion failure inside the TURN socket on a packet from the relay side :: %s" % pkt.hex()
            if rfc and relay.chans and len(pkt) < 4:
                return W_SHORT
            if rfc and len(pkt) >= 4 and struct.unpack(">H", pkt[:2])[0] in relay.chans and struct.unpack(">H", pkt[2:4])[0] > len(pkt) - 4:
                return W_CHAN_LEN
            return "sanitizer report while parsing a packet from the relay side :: %s (from %s)" % (pkt.hex(), f[1])
        if f[0] == "T":
            relay.now += int(f[1])
        if f[0] == "R":
            relay.answered(pkt)          # the relay acted before the socket reacts
        if f[0] == "S":
            peer, p = tok_addr(f[1]), vlib.unhex(f[2])
            ret = int(head[1:])
            if ret < 0:
                if len(p) <= 65000 and structured:
                    return "send refused :: %d bytes to %s returned %d" % (len(p), f[1], ret)
            else:
                expected.setdefault(peer, []).append(p)
        for to, b in dgs:
            before = len(relay.delivered)
            relay.datagram(to, b)
            log.append(b)
            if relay.unrelayed:
                to_, b_ = relay.unrelayed[-1]
                if compat in (GOOGLE, MSN) and len(relay.send_req) >= 200:
                    return W_IDS
                return "datagram handed to the base socket for another address than the relay's :: to %s: %s" % (addr_tok(to_), b_.hex()[:80])
            if structured and relay.garbage:
                return "relay cannot decode what the socket sent :: %s" % relay.garbage[-1].hex()[:120]
            if structured and relay.lapsed:
                return ("Send indication for a peer whose permission at the relay has lapsed (300 s since it was granted, no CreatePermission since): "
                        "a standards-following relay drops it :: peer %s at %d ms" % (addr_tok(relay.lapsed[-1]), relay.now))
            if structured and relay.early:
                return "data left for a peer whose CreatePermission request was neither answered nor old enough to time out :: peer %s" % addr_tok(relay.early[-1])
            for peer, data in relay.delivered[before:]:
                q = expected.get(peer, [])
                if not q:
                    if structured:
                        return "a peer receives data nobody sent :: peer %s, %d bytes" % (addr_tok(peer), len(data))
                    continue
                want = q[0]
                if data != want:
                    if not structured:
                        continue
                    if compat in (GOOGLE, MSN) and relay.active is None and len(want) % 4 and data == want + bytes((-len(want)) % 4):
                        return W_PADDED
                    if any(data == x for x in q[1:]):
                        return "a peer receives queued data out of order :: peer %s" % addr_tok(peer)
                    return "a peer receives other bytes than were sent :: peer %s receives %s, sent %s" % (addr_tok(peer), data.hex()[:60], want.hex()[:60])
                q.pop(0)
        if f[0] == "R":
            if structured and f[1] == SERVER:
                exp = None
                if rfc and len(pkt) >= 4 and 0x40 <= pkt[0] <= 0x7f:
                    ch, l = struct.unpack(">HH", pkt[:4])
                    if ch in relay.chans and l <= len(pkt) - 4:
                        exp = (relay.chans[ch], pkt[4:4 + l])      # what follows the announced length is padding
                else:
                    m = parse_stun(pkt, compat != OC2007)
                    if m and rfc and m[0] == 0x0017 and m[1][:4] == COOKIE:
                        pa, d = first(m[2], 0x12), first(m[2], 0x13)
                        if pa is not None and d is not None and dec_addr_attr(pa, m[1]):
                            exp = (dec_addr_attr(pa, m[1]), d)
                    elif m and not rfc and m[0] == 0x0115 and first(m[2], 0x0f) == TURN_COOKIE:
                        pa, d = first(m[2], 0x12), first(m[2], 0x13)
                        if pa is not None and d is not None and dec_addr_attr(pa):
                            exp = (dec_addr_attr(pa), d)
                    elif m is None and not rfc and relay.active is not None and pkt[:1] and pkt[0] >= 64:
                        exp = (relay.active, pkt)
                if exp is not None:
                    h = head.split(":")
                    got = (tok_addr(h[1]), vlib.unhex(h[2]))
                    if got != exp:
                        return "socket hands up something else than the relay forwarded :: relay: %d bytes from %s, handed up: %d bytes from %s" % (len(exp[1]), addr_tok(exp[0]), len(got[1]), h[1])
    if structured and steps and steps[-1][1] is not None:
        # every structured case ends with a clock advance past the CreatePermission time-out: nothing may still be held
        for peer, q in expected.items():
            if q:
                return "datagrams accepted by the socket never reached the relay :: %d for %s (first: %s)" % (len(q), addr_tok(peer), q[0].hex()[:60])
    return None


# --------------------------------------------------------------------------------------------------
def correspond(chk, cases, model, impl):
    """like vlib.correspond, but every distinct oracle verdict is reported (known findings must not mask others)."""
    lines = [c[0].rstrip("\n") + "\n" for c in cases]
    m_out, m_err = vlib.run_sharded(model, lines, timeout=1500) if model else ([None] * len(cases), [])
    i_out, i_err = vlib.run_sharded(impl, lines, timeout=1500)
    for idx, rc, se in i_err:
        chk.violation({"kind": "impl-crash", "case": cases[idx][0][:20000], "rc": rc, "stderr": se[-3000:]},
                      "turn: harness died (rc=%s) on case: %s\n%s" % (rc, cases[idx][0][:300], se[-1500:]))
    for idx, rc, se in m_err:
        chk.broken_obligation("model-driver-crash", "case %s rc=%s %s" % (cases[idx][0][:300], rc, se[-500:]))
    seen, mism, orf = {}, 0, 0
    for k, (line, kind) in enumerate(cases):
        mo, io = m_out[k], i_out[k]
        nt = io is not None and (">" in io or " R1:" in io)
        chk.count_case(line, nt, kind)
        if io is None:
            if not i_err:
                chk.broken_obligation("impl-no-output", line[:300])
            continue
        if k < 3:
            chk.sample({"case": line[:400], "impl": io[:400], "model": (mo or "")[:400]})
        bad = oracle(line, io, kind)
        if bad:
            orf += 1
            cls = bad.split(" :: ")[0]
            seen[cls] = seen.get(cls, 0) + 1
            if seen[cls] <= 1 or (seen[cls] <= 2 and cls not in TRIGGER):
                chk.violation({"kind": "oracle", "trigger": TRIGGER.get(cls, "other"), "why": bad, "case": line[:200000],
                               "impl": io[:200000], "input_kind": kind},
                              "turn: property oracle failed on the implementation: %s\n case: %s\n impl: %s" % (bad, line[:400], io[:400]))
        if model:
            if mo != io:
                mism += 1
                if mism <= 3:
                    d = next((j for j in range(min(len(mo or ""), len(io))) if (mo or "")[j] != io[j]), min(len(mo or ""), len(io)))
                    chk.broken_obligation("correspondence:turn",
                                          "model and implementation differ (first difference at column %d)\n case : %s\n model: ...%s\n impl : ...%s"
                                          % (d, line[:700], (mo or "<none>")[max(0, d - 200):d + 200], io[max(0, d - 200):d + 200]))
            else:
                chk.cov["traces_validated_against_impl"] += 1
    chk.cov["correspondence"]["turn"] = {"cases": len(cases), "mismatches": mism, "oracle_failures": orf,
                                         "oracle_verdicts": {k[:80]: v for k, v in seen.items()}}
    return mism, orf


def run(chk):
    chk.prove(["Props/Properties_C16.v"], ["Turn/Extract_Turn.vo"])
    model, o = vlib.ocaml_build("turn_model", "turn_model", DRIVER)
    if not model:
        chk.broken_obligation("extract-build", o[-2000:])
    impl, o = build_impl()
    if not impl:
        chk.broken_obligation("impl-build", o[-3000:])
    if impl:
        cases = gen_cases(chk.rng, chk.tier)
        correspond(chk, cases, model, impl)
    turn_over_tcp_stage(chk)
    return chk.finish(**FINISH)


def turn_over_tcp_stage(chk):
    """The relay reached over TCP (socket/udp-turn-over-tcp.c is one of this property's anchors): what the relay forwards must be handed up with exactly
    the payload however TCP cuts the framed stream.  The framing layer's model, theorems and harness belong to C17 (Stream/TurnTcpModel.v, stream_h.c);
    its TURN cases are run here as well, so that a change of the framing code is reported for this property too."""
    import C17
    m17, o = vlib.ocaml_build("stream_model", "stream_model", C17.DRIVER)
    i17, o2 = C17.build_impl()
    if not m17 or not i17:
        chk.broken_obligation("turn-over-tcp-build", (o if not m17 else o2)[-2000:]); return
    C = C17.Counter()
    C17.gen_turn(chk.rng, C, chk.tier)
    vlib.correspond(chk, C.cases, m17, i17, oracle=C17.oracle, what="turn-over-tcp-framing", nontrivial=C17.nontrivial, max_report=3, timeout=1500)


def replay(chk, path):
    r = json.load(open(path))["replay"]
    impl, o = build_impl()
    model, _ = vlib.ocaml_build("turn_model", "turn_model", DRIVER)
    rc, so, se = vlib.run_lines(impl, r["case"] + "\n")
    print("impl :", so.strip()[:2000])
    if model:
        rc2, mo, _ = vlib.run_lines(model, r["case"] + "\n")
        print("model:", mo.strip()[:2000])
    print("oracle:", oracle(r["case"], so.strip(), r.get("input_kind", "replay")))
    if "AddressSanitizer" in se:
        print(se[:3000])
    return 0
