"""C06 — framing and lookup agree with the RFC grammar."""
import vlib, stun_common as sc

COQ_TARGETS = ["Props/Properties_C06.vo"] + sc.COQ_TARGETS_COMMON
META = dict(
    text="Coq theorems (Props/Properties_C06.v): validate_buffer_length returns L iff the first L bytes satisfy an independent inductive RFC grammar (WfMsg/Tiles), Incomplete iff the property's condition, for all byte strings and both padding modes; the vectored pre-check is independent of the split (any vector, empty buffers included); lookup = first match of an independent parser with the MI/FINGERPRINT ordering rule and the OC2007 swap. Tied to stunmessage.c by differential execution (grammar-aware generator, all prefixes, all splits of the first 9 bytes, random splits with empty buffers) and an independent python parser as oracle.",
    note='trusted: Coq kernel; extraction (ExtrOcamlBasic only); the hand-written STUN models, tied to stun/*.c by sampling (differential execution under ASan/UBSan), not by proof; Gallina SHA-1/HMAC/MD5/CRC-32 specifications; gnutls; the python oracle.',
    technique='Coq proof of equivalence with an inductive grammar + differential correspondence')

FINISH = dict(level="proof", trusted=sc.TRUSTED, rule='programs: valid / nearly valid / random byte strings, all prefixes (random cut), mutated length fields, every split of the first 5/7/9 bytes with optional empty buffers and NULL-terminated vectors, lookups of 17 attribute types on everything that validates',
              assumptions=["byte strings shorter than 2^16 (uint16 length arithmetic of stun_message_length wraps beyond)", "bytes are 0..255"])

KINDS = "lenchk,split-exhaustive,hostile,auth".split(",")
pregen = sc.pregen
prebuild = sc.prebuild


def extra(chk):
    pass


def run(chk):
    sc.run_stun(chk, "Props/Properties_C06.v", KINDS, ("C06",), 2000, 150000, "stun-C06")
    extra(chk)
    return chk.finish(**FINISH)


def replay(chk, path):
    return sc.replay_stun(chk, path)
