"""C15 — Candidate and pair priorities follow RFC 8445 and order the check list."""
import vlib, sim_common as sc

META = dict(
    text="Coq theorems over definitions REGENERATED from /repo's candidate.c / agent.c / conncheck.c on every run by tools/c2v.py "
         "(clang JSON AST -> Gallina, C wrap-around and g_assert made explicit): candidate formula without wrap, type ranking "
         "host>prflx>srflx>relay for every reliability/transport, injective local-preference packing, pair formula for ALL 32-bit "
         "priorities, role symmetry, and descending order of the check list after every operation sequence including role "
         "switches (hand-written list model over the generated comparison). Generated and hand-written parts are both executed "
         "against the real code (candidate.c included in the harness, GLib's insert_sorted/sort, recalculate_pair_priorities). The glue the "
         "theorems cannot see (which arguments each call site passes, when a list is re-sorted) is validated on live two-agent sessions in the "
         "deterministic simulator: candidate ranking per transport, pair formula against both candidates' current priorities, descending order "
         "after every step (re-offers with new priorities, role changes, restarts).",
    note="trusted: Coq kernel, tools/c2v.py + clang AST (validated per run by differential execution), extraction, the check-list "
         "model (tied by sampling), harness/sim.c and the trace oracle sim_common.oracle_priorities.",
    technique="Coq proof over translator-regenerated definitions + list-model invariant; differential correspondence")

COQ_TARGETS = ["Props/Properties_C15.vo", "Prio/Extract_Prio.vo"]

FINISH = dict(
    level="proof",
    trusted=["tools/c2v.py (C subset -> Gallina) and clang 14's JSON AST; cross-checked on every run against the compiled functions",
             "hand-written check-list model coq/Prio/CheckListModel.v (insert_sorted / stable sort / remove) tied by differential execution "
             "against GLib g_slist_insert_sorted + conn_check_compare + recalculate_pair_priorities on a real NiceAgent/NiceStream struct",
             "extraction with ExtrOcamlBasic only (Z kept inductive); OCaml 4.13.1; gcc 12 + ASan/UBSan",
             "not modelled: NULL c->turn dereference in nice_candidate_ice_type_preference (pointer validity is outside the translator's subset); "
             "nice_candidate_ip_local_preference (interface enumeration) is an abstract input"],
    rule="cases: P/L/M (formula + assert boundaries), T/R/C/D (all type x transport x reliable x nat x relay type x component x ip index), "
         "Q/A (boundary-exhaustive 32-bit pairs around 0, 2^31, 2^32 plus random), X, S (random check-list programs with adds, removals, "
         "role switches, equal priorities); non-trivial = every case except Fault ones; distinct by case text",
    assumptions=["priorities are 32-bit unsigned (the C types)", "pair formula exact when min(G,D) <= 2^32-3, else mod 2^64 (RFC range is < 2^31)"])

SPECS = [("agent/candidate.c",
          ["nice_candidate_ice_priority_full", "nice_candidate_ice_local_preference_full",
           "nice_candidate_ms_ice_local_preference_full", "nice_candidate_ice_type_preference",
           "nice_candidate_ice_local_preference", "nice_candidate_ms_ice_local_preference",
           "nice_candidate_ice_priority", "nice_candidate_ms_ice_priority", "nice_candidate_pair_priority"],
          ["agent/candidate.h", "agent/candidate-priv.h", "agent/agent-priv.h"]),
         ("agent/agent.c", ["agent_candidate_pair_priority"], ["agent/agent-priv.h"]),
         ("agent/conncheck.c", ["conn_check_compare"], ["agent/agent-priv.h"])]
CONSTS = [(["agent/candidate.h", "agent/candidate-priv.h", "agent/agent-priv.h"],
           ["NICE_CANDIDATE_TYPE_HOST", "NICE_CANDIDATE_TYPE_SERVER_REFLEXIVE", "NICE_CANDIDATE_TYPE_PEER_REFLEXIVE",
            "NICE_CANDIDATE_TYPE_RELAYED", "NICE_CANDIDATE_TRANSPORT_UDP", "NICE_CANDIDATE_TRANSPORT_TCP_ACTIVE",
            "NICE_CANDIDATE_TRANSPORT_TCP_PASSIVE", "NICE_CANDIDATE_TRANSPORT_TCP_SO", "NICE_RELAY_TYPE_TURN_UDP",
            "NICE_RELAY_TYPE_TURN_TCP", "NICE_RELAY_TYPE_TURN_TLS",
            "NICE_CANDIDATE_MAX_TURN_SERVERS", "NICE_CANDIDATE_MAX_LOCAL_ADDRESSES"])]
DRIVER = ["zutil_z.ml.in", "zutil_big.ml.in", "prio_driver.ml"]


def pregen():
    return vlib.gen_module("Candidate", SPECS, constants=CONSTS)


def prebuild():
    m, o = vlib.ocaml_build("prio_model", "prio_model", DRIVER)
    if m:
        m, o = sc.build_sim()
    return None if m else o


def build_impl():
    srcs = [s for s in vlib.AGENT_SRCS + vlib.SOCKET_SRCS + vlib.STUN_SRCS + ["agent/agent-enum-types.c"]
            if s not in ("agent/candidate.c", "agent/conncheck.c", "agent/interfaces.c")]
    objs, l = vlib.repo_objects(srcs)
    if not objs:
        return None, l
    return vlib.link("prio_h", ["prio_h.c"], objs)


B32 = [0, 1, 2, 3, 255, 256, 65535, 65536, 2 ** 24, 126 * 2 ** 24, 2 ** 31 - 2, 2 ** 31 - 1, 2 ** 31, 2 ** 31 + 1,
       2 ** 32 - 4, 2 ** 32 - 3, 2 ** 32 - 2, 2 ** 32 - 1]


def pf(G, D):
    return ((1 << 32) * min(G, D) + 2 * max(G, D) + (1 if G > D else 0)) % (1 << 64)


def gen_cases(rng, n):
    cs = []
    k = [0]

    def add(s, kind):
        cs.append(("c%d %s" % (k[0], s), kind)); k[0] += 1
    for g in B32:
        for d in B32:
            add("Q %d %d" % (g, d), "pair-boundary")
            add("A %d %d %d" % (rng.randrange(2), g, d), "agent-pair")
    for rel in (0, 1):
        for nat in (0, 1):
            for tr in range(5):
                for tty in range(3):
                    add("R %d %d %d %d" % (rel, nat, tr, tty), "rank")
                    if nat == 0 and tty == 0 and tr < 4:
                        for comp in (1, 2, rng.choice([3, 255, 256])):
                            add("Y %d %d %d %d %d" % (rel, tr, rng.randrange(0, 6), rng.randrange(1, 6), comp), "check-priority-attr")
                    for ty in range(5):
                        comp = rng.choice([1, 2, 255, 256])
                        ipidx, nips = rng.randrange(0, 6), rng.randrange(1, 6)
                        tnn = 1 if ty == 3 else rng.randrange(2)
                        tpref = rng.randrange(0, 8)
                        add("T %d %d %d %d 1 %d %d %d %d %d" % (rel, nat, ty, tr, tty, tpref, ipidx, nips, comp), "type-pref")
                        add("C %d %d %d %d %d %d %d %d %d %d" % (rel, nat, ty, tr, tnn, tty, tpref, ipidx, nips, comp), "ice-priority")
                        add("D %d %d %d %d %d %d %d %d %d %d" % (rel, nat, ty, tr, tnn, tty, tpref, ipidx, nips, comp), "ms-priority")
    for tp in (0, 1, 60, 100, 110, 120, 126):
        for lp in (0, 1, 8192, 65535):
            for c in (1, 2, 255, 256):
                add("P %d %d %d" % (tp, lp, c), "cand-formula")
    for d in (0, 1, 7, 8):
        for t in (0, 7, 8):
            for o in (0, 63, 64):
                add("L %d %d %d" % (d, t, o), "local-pref")
                add("M %d %d %d %d" % (rng.choice([0, 6, 15, 16]), d, t, o), "ms-local-pref")
    for _ in range(n):
        r = rng.random()
        if r < 0.3:
            add("Q %d %d" % (rng.choice(B32 + [rng.randrange(2 ** 32)]), rng.choice(B32 + [rng.randrange(2 ** 32)])), "pair-random")
        elif r < 0.4:
            add("P %d %d %d" % (rng.randrange(0, 130), rng.randrange(0, 70000), rng.randrange(0, 300)), "cand-formula")
        elif r < 0.5:
            a, b = rng.choice(B32 + [rng.randrange(2 ** 64)]), rng.choice(B32 + [rng.randrange(2 ** 64)])
            add("X %d %d" % (a, rng.choice([a, b])), "compare")
        else:
            # check-list program; few distinct priorities so that ties and re-ordering on role switch happen
            pool = [rng.choice(B32[:12] + [rng.randrange(1, 2 ** 31)]) for _ in range(rng.randrange(2, 6))]
            ops, size = [], 0
            for j in range(rng.randrange(1, 25)):
                q = rng.random()
                if q < 0.6 or size == 0:
                    ops.append("a%d:%d:%d" % (j + 1, rng.choice(pool), rng.choice(pool))); size += 1
                elif q < 0.8:
                    ops.append("r%d" % rng.randrange(0, size + 1)); size = max(0, size - 1)
                else:
                    ops.append("c%d" % rng.randrange(2))
            add("S %d %s" % (rng.randrange(2), " ".join(ops)), "check-list")
    return cs


def oracle(line, out):
    t = line.split()
    o = out.split()
    cmd = t[1]
    if cmd == "Q":
        G, D = int(t[2]), int(t[3])
        if o[1] == "F" or int(o[1]) != pf(G, D):
            return "pair priority %s, RFC formula gives %d" % (o[1], pf(G, D))
    elif cmd == "A":
        c, l, r = int(t[2]), int(t[3]), int(t[4])
        exp = pf(l, r) if c else pf(r, l)
        if o[1] == "F" or int(o[1]) != exp:
            return "agent pair priority %s, expected %d (G = controlling side's priority)" % (o[1], exp)
    elif cmd == "P":
        tp, lp, c = int(t[2]), int(t[3]), int(t[4])
        if 0 <= tp <= 126 and 0 <= lp <= 65535 and 1 <= c <= 256:
            exp = (1 << 24) * tp + (1 << 8) * lp + 256 - c
            if o[1] == "F" or int(o[1]) != exp:
                return "candidate priority %s, formula gives %d" % (o[1], exp)
    elif cmd == "R":
        if "F" in o[1:]:
            return "type preference faults"
        h, p, s, r = map(int, o[1:5])
        if not (126 >= h > p > s > r >= 0):
            return "type ranking violated: host %d prflx %d srflx %d relayed %d" % (h, p, s, r)
    elif cmd == "T":
        if o[1] != "F" and not (0 <= int(o[1]) <= 126):
            return "type preference %s outside 0..126" % o[1]
    elif cmd in ("C", "D"):
        if o[1] != "F" and not (0 < int(o[1]) < 2 ** 31):
            return "candidate priority %s outside 1..2^31-1" % o[1]
    elif cmd == "Y":
        # RFC 8445 7.1.1 / 5.1.2: type preference of a peer-reflexive candidate of that transport (110 UDP, TCP per RFC 6544 halved/by direction),
        # so the attribute must lie strictly between the server-reflexive and the host priority the same address would get
        if o[1] == "F" or not (0 < int(o[1]) < 2 ** 31):
            return "PRIORITY attribute %s outside 1..2^31-1" % o[1]
        if (int(o[1]) & 0xff) != (256 - int(t[6])) & 0xff:
            return "PRIORITY attribute %s does not encode component %s" % (o[1], t[6])
        if o[1] != o[2]:
            return ("PRIORITY attribute of a check sent from a transport-%s candidate is %s, but a peer-reflexive candidate learnt from that check "
                    "(same transport, base, component) gets priority %s (RFC 8445 7.1.1)" % (t[3], o[1], o[2]))
    elif cmd == "X":
        a, b = int(t[2]), int(t[3])
        exp = -1 if a > b else (1 if a < b else 0)
        if int(o[1]) != exp:
            return "compare gives %s expected %d" % (o[1], exp)
    elif cmd == "S":
        ctrl = int(t[2])
        ops = t[3:]
        snaps = out.split("|")[1:]
        if len(snaps) != len(ops):
            return "wrong number of snapshots"
        live = {}
        for op, sn in zip(ops, snaps):
            items = [(int(x.split(":")[0]), int(x.split(":")[1])) for x in sn.split()]
            if op[0] == "a":
                i, l, r = map(int, op[1:].split(":")); live[i] = (l, r)
            elif op[0] == "c":
                ctrl = int(op[1:])
            elif op[0] == "r":
                gone = set(live) - {i for i, _ in items}
                for g in gone:
                    del live[g]
            if sorted(i for i, _ in items) != sorted(live):
                return "check list lost or invented a pair after %s" % op
            pr = [p for _, p in items]
            if any(pr[j] < pr[j + 1] for j in range(len(pr) - 1)):
                return "check list not in descending priority order after %s: %s" % (op, pr)
            for i, p in items:
                l, r = live[i]
                exp = pf(l, r) if ctrl else pf(r, l)
                if p != exp:
                    return "pair %d has priority %d but the current role gives %d (after %s)" % (i, p, exp, op)
    return None


def run(chk):
    info, err = pregen()
    if info is None:
        chk.broken_obligation("translator", err)
    chk.prove(["Props/Properties_C15.v"], ["Prio/Extract_Prio.vo"])
    if info is not None:
        chk.cov["translated_functions"] = sorted(info)
    model, o = vlib.ocaml_build("prio_model", "prio_model", DRIVER)
    if not model:
        chk.broken_obligation("extract-build", o[-2000:])
    impl, o = build_impl()
    if not impl:
        chk.broken_obligation("impl-build", o[-3000:])
    if impl:
        cases = gen_cases(chk.rng, 3000 if chk.tier == "quick" else 150000)
        if model:
            vlib.correspond(chk, cases, model, impl, oracle=oracle, what="priorities",
                            nontrivial=lambda l, o_: o_ is not None and " F" not in o_)
        else:
            vlib.correspond(chk, cases, impl, impl, oracle=oracle, what="priorities-oracle-only")
    # live sessions: the glue around the formulas (which arguments the call sites pass, when the check list is re-sorted)
    n = 400 if chk.tier == "quick" else 20000
    sc.run_sim(chk, [sc.gen_priorities(chk.rng, i) for i in range(n)], lambda line, evs, meta: sc.oracle_priorities(evs, meta), "sim-C15", token=" pl ")
    return chk.finish(**FINISH)


def replay(chk, path):
    import json
    r = json.load(open(path))["replay"]
    if r.get("case", "").startswith("prio"):
        sim, o = sc.build_sim()
        rc, so, se = vlib.run_lines(sim, r["case"] + "\n")
        print(so.replace(" | ", "\n")[:8000]); print("oracle:", sc.oracle_priorities(sc.parse_trace(so)[1]))
        return 0
    impl, o = build_impl()
    rc, so, se = vlib.run_lines(impl, r["case"] + "\n")
    print("impl:", so.strip(), "\noracle:", oracle(r["case"], so.strip()))
    return 0
