"""C01 — tie of coq/Agent/CheckListModel.v to the real check-list functions of agent/conncheck.c (harness/checklist_h.c).

checklist_tie(chk): generate structured check lists, run the REAL static functions on them (one fresh NiceAgent per case),
evaluate the model on the same inputs inside Coq (vm_compute, <= 700 cases per Coq file) and compare whole records there.
Only states the code can be in are generated (see gen_pair): the functions g_assert on some inconsistent ones."""
import concurrent.futures
import vlib

STATES = "ZWISFD"
COQ_STATE = dict(Z="Frozen", W="Waiting", I="InProgress", S="Succeeded", F="Failed", D="Discovered")
FLAGS = ("nom", "valid", "usec", "mnora", "retrans", "stun", "trig")
SHARD = 700


def build(chk=None):
    srcs = [s for s in vlib.AGENT_SRCS + vlib.SOCKET_SRCS + vlib.STUN_SRCS + ["agent/agent-enum-types.c"] if s != "agent/conncheck.c"]
    objs, l = vlib.repo_objects(srcs)
    if not objs:
        return None, l
    return vlib.link("checklist_h", ["checklist_h.c"], objs)


# ------------------------------------------------------------------ generation
def gen_pair(rng, pid, comp, prio, st, rfc, ctl, nf):
    """flags consistent with where agent/conncheck.c sets them (valid only after a success, stun transactions only while
    in progress, nominated before success only outside RFC 5245 compatibility, ...)"""
    c = lambda p: int(rng.random() < p)
    p = dict(id=pid, comp=comp, lf=rng.randrange(1, nf + 1), rf=rng.randrange(1, nf + 1), prio=prio, st=st,
             nom=0, valid=0, usec=0, mnora=0, retrans=0, stun=0, trig=0, disc=0)
    p["loc"], p["rem"] = p["lf"], p["rf"]                       # a candidate has one foundation; several candidates may share it
    if rng.random() < 0.3:
        p["loc"] += 10 * rng.randrange(1, 3)
    if rng.random() < 0.3:
        p["rem"] += 10 * rng.randrange(1, 3)
    if st in "ZW":
        p["trig"] = c(0.3); p["nom"] = (0 if rfc else c(0.4)); p["mnora"] = p["trig"] & rfc & c(0.5)
    elif st == "I":
        p["stun"] = c(0.85); p["retrans"] = p["stun"] & c(0.8); p["trig"] = c(0.2)
        p["valid"] = c(0.25); p["usec"] = rfc & ctl & c(0.3); p["mnora"] = rfc & (1 - ctl) & c(0.4)
        p["nom"] = (p["valid"] & c(0.6)) if rfc else (ctl | c(0.3))
    elif st == "S":
        p["valid"] = c(0.75); p["trig"] = c(0.15); p["usec"] = rfc & ctl & c(0.3); p["mnora"] = rfc & (1 - ctl) & c(0.3)
        p["nom"] = (p["valid"] & c(0.55)) if rfc else c(0.6)
    elif st == "D":
        p["valid"] = 1; p["nom"] = c(0.5); p["trig"] = (0 if rfc else c(0.1))
    elif st == "F":
        p["valid"] = c(0.2); p["trig"] = c(0.25); p["nom"] = (p["valid"] & c(0.5)) if rfc else c(0.3)
    return p


def gen_stream(rng, rfc, ctl, first_id, profile, ncomp=None, npairs=None):
    ncomp = ncomp or rng.choice([1, 1, 2, 2, 3])
    n = rng.choice([0, 1, 2, 3, 4, 5, 6, 8, 10, 12]) if npairs is None else npairs
    nf = rng.choice([1, 2, 2, 3, 4])
    ties = rng.random() < 0.35
    prios = sorted(((rng.randrange(1, 6) * 10) if ties else rng.randrange(1, 1 << rng.choice([8, 32, 62])) for _ in range(n)), reverse=True)
    weights = dict(any="ZWISFD", frozen="ZZZZZF", early="ZZZWWIF", mid="ZWIISSFD", late="ISSFFDD", done="SSFFFD", failed="FFFFFS")[profile]
    pairs = [gen_pair(rng, first_id + k, rng.randrange(1, ncomp + 1), prios[k], rng.choice(weights), rfc, ctl, nf) for k in range(n)]
    seen = set()                       # one pair per (component, local candidate, remote candidate), as the code maintains
    for p in pairs:
        while (p["comp"], p["loc"], p["rem"]) in seen:
            p["loc"] += 10
        seen.add((p["comp"], p["loc"], p["rem"]))
    # peer-reflexive discovered pairs hang off a succeeded pair that is not itself valid
    for p in pairs:
        if p["st"] == "S" and rng.random() < 0.3:
            cands = [q for q in pairs if q["st"] == "D" and q["comp"] == p["comp"] and not any(r["disc"] == q["id"] for r in pairs)]
            if cands:
                p["disc"] = rng.choice(cands)["id"]; p["valid"] = 0
                if rfc:
                    p["nom"] = 0
    comps = []
    for c in range(1, ncomp + 1):
        # the selected pair: none (local == NULL, priority 0 - also while valid nominated pairs are left, after the socket of the
        # selected pair was removed), the best valid nominated pair, or a pair that is no longer on the list
        vn = [p for p in pairs if p["comp"] == c and p["valid"] and p["nom"]]
        r = rng.random()
        if vn and r < 0.55:
            bp = max(vn, key=lambda p: p["prio"]); sel, sl, sr = bp["prio"], bp["loc"], bp["rem"]
        elif vn and r < 0.7:
            sel, sl, sr = max(p["prio"] for p in vn) + rng.choice([1, 5, 1000]), 70 + rng.randrange(3), 70 + rng.randrange(3)
        elif not vn and r < 0.3:
            sel, sl, sr = rng.choice(prios + [7]), 70 + rng.randrange(3), 70 + rng.randrange(3)
        else:
            sel, sl, sr = 0, 0, 0
        comps.append(dict(state=rng.choice([0, 1, 2, 2, 3, 3, 4, 4, 5]), sel=sel, selloc=sl, selrem=sr, remote=int(rng.random() < 0.85)))
    return dict(creds=int(rng.random() < 0.85), comps=comps, pairs=pairs)


def selected_after(s, cid, rfc, t):
    """selected priority the pruning of priv_mark_pair_nominated's body works with (t = the pair it nominates)"""
    c = s["comps"][cid - 1]; sel, has = c["sel"], bool(c["selloc"])
    if t["valid"] and t["prio"] > sel:
        sel, has = t["prio"], True
    if not has:           # e3eeaf1: the first valid nominated pair takes over
        for q in s["pairs"]:
            if q["comp"] == cid and q["valid"] and (q["nom"] or q is t):
                sel = max(sel, q["prio"]); break
    return sel


def removable(p, cid, sel):
    """would priv_prune_pending_checks (component cid, selected priority sel) delete this pair?"""
    if p["comp"] != cid:
        return False
    if p["trig"] and p["st"] != "I":
        return p["prio"] < sel
    return p["st"] in "ZW"


def gen_case(rng, i, op):
    rfc = int(rng.random() < 0.7); ctl = rng.randrange(2)
    prof = rng.choice(["any", "any", "frozen", "early", "mid", "late", "done", "failed"])
    ns = rng.choice([1, 1, 2, 3]) if op in ("un", "ur", "um", "oc", "oa", "fw") else rng.choice([1, 1, 1, 2])
    streams, nid = [], 1
    for s in range(ns):
        st = gen_stream(rng, rfc, ctl, nid, prof if op not in ("un", "oc", "oa") else rng.choice([prof, "frozen", "done"]))
        nid += len(st["pairs"]); streams.append(st)
    case = dict(id="k%d" % i, op=op, args=[0, 0, 0, 0], rfc=rfc, ctl=ctl, disc=0, streams=streams, kind=op)
    allp = [p for s in streams for p in s["pairs"]]
    si = rng.randrange(ns); s = streams[si]
    if op in ("un", "oa"):
        if op == "oa":
            case["args"][0] = rng.choice([(1 << ns) - 1, (1 << ns) - 1, rng.randrange(1 << ns)])
        if not any(p["st"] == "W" for p in allp):
            case["kind"] = op + ":no-waiting"
    elif op == "ur":
        c = [p for p in allp if p["st"] == "S"]
        if not c:
            if not allp:
                s["pairs"].append(gen_pair(rng, nid, 1, 1, "S", rfc, ctl, 2)); allp = [p for s_ in streams for p in s_["pairs"]]
            p = rng.choice(allp); p.update(st="S", stun=0, retrans=0); c = [p]
        case["args"][0] = rng.choice(c)["id"]
    elif op == "um":
        c = [p for p in allp if p["st"] == "Z"]
        if not c:
            if not allp:
                s["pairs"].append(gen_pair(rng, nid, 1, 1, "Z", rfc, ctl, 2)); allp = [p for s_ in streams for p in s_["pairs"]]
            p = rng.choice(allp); p.update(st="Z", stun=0, retrans=0, valid=0, disc=0); c = [p]
        case["args"][0] = rng.choice(c)["id"]
    elif op == "fw":
        case["args"][0] = si
    elif op == "oc":
        case["args"][0] = si; case["args"][1] = int(rng.random() < 0.65)
        case["kind"] = "oc:" + ("send-ok" if case["args"][1] else "send-fails")
        if not case["args"][1] and rng.random() < 0.4:
            # candidate_check_pair_fail also fails the discovered pair hanging off the pair (not reachable for a WAITING pair; harmless)
            w = [p for p in s["pairs"] if p["st"] in "WZ"]; d = [p for p in s["pairs"] if p["st"] == "D" and not any(r["disc"] == p["id"] for r in s["pairs"])]
            if w and d:
                rng.choice(w)["disc"] = rng.choice(d)["id"]
    elif op == "fc":
        case["args"][0] = si; case["disc"] = int(rng.random() < 0.12)
    elif op in ("pr", "fr"):
        cid = rng.randrange(1, len(s["comps"]) + 1); case["args"][0] = si; case["args"][1] = cid
        c = s["comps"][cid - 1]
        if op == "pr":
            if rng.random() < 0.3 and s["pairs"]:
                c["sel"] = max(rng.choice(s["pairs"])["prio"] + rng.choice([-1, 0, 0, 1]), 1)     # any positive value is fine for the function itself
                c["selloc"] = c["selloc"] or 71; c["selrem"] = c["selrem"] or 71
            if c["sel"] == 0 and rng.random() < 0.85:
                c["sel"], c["selloc"], c["selrem"] = rng.choice([1, 40, 1 << 33]), 72, 72
            if c["sel"] == 0:
                case["kind"] = "pr:assert"                                                        # g_assert (priority > 0): both sides must fault
        elif any(p["comp"] == cid and p["valid"] and p["nom"] for p in s["pairs"]):
            case["kind"] = "fr:nominated" + (":no-selected-pair" if not c["selloc"] else "")
        else:
            case["kind"] = "fr:none-nominated"
    elif op == "mn":
        cid = rng.randrange(1, len(s["comps"]) + 1); case["args"][0] = si; case["args"][1] = cid
        mine = [p for p in s["pairs"] if p["comp"] == cid]
        if mine and rng.random() < 0.9:
            p = rng.choice(mine); case["args"][2], case["args"][3] = p["loc"], p["rem"]
            if rng.random() < 0.3 and len(mine) > 1 and not any(r["disc"] == p["id"] for r in s["pairs"]):
                # the check was sent on a pair whose success produced a peer-reflexive (DISCOVERED) pair: that one is nominated instead
                d = [q for q in mine if q is not p and not q["disc"] and not any(r["disc"] == q["id"] for r in s["pairs"])]
                if d:
                    q = rng.choice(d); q.update(st="D", valid=1, stun=0, retrans=0, trig=(0 if rfc else q["trig"]), nom=int(rng.random() < 0.4))
                    p.update(st="S", valid=0, stun=0, retrans=0, disc=q["id"], nom=(0 if rfc else p["nom"]))
                    vn = [x["prio"] for x in mine if x["valid"] and x["nom"]]
                    if vn:
                        s["comps"][cid - 1]["sel"] = max(s["comps"][cid - 1]["sel"], max(vn))
        else:
            case["args"][2], case["args"][3] = rng.randrange(1, 5), rng.randrange(1, 5)
        # "i = i->next" after the body deleted the link under the cursor reads freed memory: such lists are not
        # generated (CheckListProofs.mark_nominated_memory_safe / mark_nominated_cursor_freed; none was found reachable)
        if not (rfc and ctl):
            byid = {p["id"]: p for p in s["pairs"]}
            for p in mine:
                if (p["loc"], p["rem"]) != (case["args"][2], case["args"][3]):
                    continue
                t = byid.get(p["disc"], None) if (p["st"] == "S" and p["disc"]) else p
                if t is None:
                    continue
                if (t["nom"] or t["valid"] or not rfc) and removable(p, cid, max(selected_after(s, cid, rfc, t), 1)):
                    # make the cursor pair one the pruning keeps
                    if p["st"] == "D" or p["disc"]:
                        p["trig"] = 0
                    else:
                        p["st"] = rng.choice("SF") if not p["trig"] else "I"
                        p["stun"] = p["retrans"] = 0
        case["kind"] = "mn:" + ("rfc" if rfc else "google") + (":ctl" if ctl else ":cted")
    return case


def line_of(c):
    t = [c["id"], c["op"]] + [str(a) for a in c["args"]] + ["A", str(c["rfc"]), str(c["ctl"]), str(c["disc"])]
    for s in c["streams"]:
        t += ["S", str(s["creds"]), str(len(s["comps"]))]
        for k in s["comps"]:
            t += ["C", str(k["state"]), str(k["sel"]), str(k["selloc"]), str(k["selrem"]), str(k["remote"])]
        t.append(str(len(s["pairs"])))
        for p in s["pairs"]:
            t += ["P"] + [str(p[f]) for f in ("id", "comp", "lf", "rf", "loc", "rem", "prio", "st") + FLAGS + ("disc",)]
    return " ".join(t)


# ------------------------------------------------------------------ Coq terms
def b(x):
    return "true" if int(x) else "false"


def coq_pair(p):
    # candidate identities are per component in the harness
    return "(mkPair %d %d %d %d %d %d %d %s %s %d)" % (p["id"], p["comp"], p["lf"], p["rf"], p["comp"] * 1000 + p["loc"], p["comp"] * 1000 + p["rem"],
                                                     p["prio"], COQ_STATE[p["st"]], " ".join(b(p[f]) for f in FLAGS), p["disc"])


def coq_stream(s):
    return "(mkStream [%s] [%s] %s)" % ("; ".join(coq_pair(p) for p in s["pairs"]),
                                        "; ".join("(mkComp %d %d %d %d %d %s)" % (i + 1, k["state"], k["sel"], (i + 1) * 1000 + k["selloc"] if k["selloc"] else 0,
                                                                                     (i + 1) * 1000 + k["selrem"] if k["selrem"] else 0, b(k["remote"])) for i, k in enumerate(s["comps"])), b(s["creds"]))


def coq_op(c):
    a = c["args"]; ns = len(c["streams"])
    return dict(un="OpUn", ur="(OpUr %d)" % a[0], um="(OpUm %d)" % a[0], fw="(OpFw %d%%nat)" % a[0], oc="(OpOc %d%%nat %s)" % (a[0], b(a[1])),
                oa="(OpOa [%s])" % "; ".join(b((a[0] >> k) & 1) for k in range(ns)), fc="(OpFc %d%%nat)" % a[0], pr="(OpPr %d%%nat %d)" % (a[0], a[1]),
                fr="(OpFr %d%%nat %d)" % (a[0], a[1]), mn="(OpMn %d%%nat %d %d %d)" % (a[0], a[1], a[1] * 1000 + a[2], a[1] * 1000 + a[3]))[c["op"]]


def parse_out(c, toks):
    """harness output -> (ret, streams as dicts in the generator's format, signals) or None for Fault"""
    if toks[1] == "Fault":
        return None
    ret = int(toks[1]); rest = " ".join(toks[2:]); body, sig = rest.rsplit("#", 1)
    chunks = [x for x in body.split("S ")[1:]]
    streams = []
    for s, ch in zip(c["streams"], chunks):
        pl, cl = ch.split("|")
        byid = {p["id"]: p for p in s["pairs"]}
        pairs = []
        for x in pl.strip().split(","):
            if not x:
                continue
            pid, fl = x.split(":"); p = dict(byid[int(pid)]); p["st"] = fl[0]
            for f, v in zip(FLAGS, fl[1:]):
                p[f] = int(v)
            pairs.append(p)
        comps = []
        for k, x in zip(s["comps"], [y for y in cl.strip().split(",") if y]):
            st, sel, sl, sr = x.split(":"); comps.append(dict(state=int(st), sel=int(sel), selloc=int(sl), selrem=int(sr), remote=k["remote"]))
        streams.append(dict(creds=s["creds"], comps=comps, pairs=pairs))
    sigs = [tuple(int(v) for v in x.split(".")) for x in sig.strip().split(",") if x and x != "-"]
    return ret, streams, sigs


def coq_expected(res):
    if res is None:
        return "None"
    ret, streams, sigs = res
    return "(Some (%d, [%s], [%s]))" % (ret, "; ".join(coq_stream(s) for s in streams), "; ".join("(%d%%nat, %d, %d)" % s for s in sigs))


def coq_shard(cases, results):
    items = ["(%s, mkAgent %s %s %s [%s], %s)" % (coq_op(c), b(c["rfc"]), b(c["ctl"]), b(c["disc"]), "; ".join(coq_stream(s) for s in c["streams"]), coq_expected(r))
             for c, r in zip(cases, results)]
    body = ("From Coq Require Import ZArith List Bool.\nImport ListNotations.\nLocal Open Scope Z_scope.\n"
            "Definition cases : list (op * agent * option (Z * list stream * list (nat * Z * Z))) := [\n%s].\n"
            "Fixpoint bad (n : nat) (l : list (op * agent * option (Z * list stream * list (nat * Z * Z)))) : list nat :=\n"
            "  match l with [] => [] | (o, a, e) :: r => if result_eqb (run_op o a) e then bad (S n) r else n :: bad (S n) r end.\n"
            "Eval vm_compute in (bad 0 cases).\n") % ";\n".join(items)
    return vlib.coq_eval(["Nice.Agent.CheckListModel"], body)


OPS = dict(un=600, ur=300, um=300, fw=200, oc=800, oa=300, fc=500, pr=600, fr=800, mn=800)


def checklist_tie(chk):
    impl, o = build()
    if not impl:
        chk.broken_obligation("impl-build-checklist", (o or "")[-2000:]); return
    ok, out = vlib.coq_make(["Agent/CheckListModel.vo"])
    if not ok:
        chk.broken_obligation("coq-build:Agent/CheckListModel.v", out[-2000:]); return
    mult = 1 if chk.tier == "quick" else 12
    cases = []
    for op, n in OPS.items():
        for _ in range(n * mult):
            cases.append(gen_case(chk.rng, len(cases), op))
    txt = "".join(line_of(c) + "\n" for c in cases)
    rc, so, se = vlib.run_lines(impl, txt)
    outs = [l.split() for l in so.strip().split("\n")] if so.strip() else []
    if rc != 0 or len(outs) != len(cases) or any(o_[0] != c["id"] for o_, c in zip(outs, cases)):
        k = min(len(outs), len(cases) - 1)
        if "AddressSanitizer" in se or "runtime error" in se:
            chk.violation({"kind": "checklist", "case": line_of(cases[k])}, "sanitizer report in the check-list functions on: %s\n%s" % (line_of(cases[k]), se[-1500:]))
        else:
            chk.broken_obligation("checklist-harness", "rc=%s, %d/%d lines; next case: %s\n%s" % (rc, len(outs), len(cases), line_of(cases[k]), se[-1500:]))
        return
    results = [parse_out(c, o_) for c, o_ in zip(cases, outs)]
    for c, r in zip(cases, results):
        chk.count_case(line_of(c).split(" ", 1)[1], True, "checklist:" + c["kind"])
        if r is None and c["kind"] != "pr:assert":
            chk.violation({"kind": "checklist", "case": line_of(c)}, "a g_assert of agent/conncheck.c failed on a check list the code can reach: %s" % line_of(c))
    shards = [(cases[i:i + SHARD], results[i:i + SHARD]) for i in range(0, len(cases), SHARD)]
    with concurrent.futures.ThreadPoolExecutor(max_workers=8) as ex:
        evals = list(ex.map(lambda s: coq_shard(*s), shards))
    good = True
    for (cs, rs), (rcq, out) in zip(shards, evals):
        flat = out.replace("\n", " ")
        if rcq == 0 and "= []" in flat:
            continue
        good = False
        idx = []
        if rcq == 0 and "= [" in flat:
            idx = [int(x.replace("%nat", "")) for x in flat.split("= [", 1)[1].split("]", 1)[0].split(";") if x.strip()]
        detail = "\n".join("%s\n  impl: %s" % (line_of(cs[k]), " ".join(outs[cases.index(cs[k])])) for k in idx[:3]) if idx else out[-1500:]
        chk.broken_obligation("correspondence:checklist", "CheckListModel and agent/conncheck.c disagree on %d case(s):\n%s" % (len(idx), detail))
    if good:
        chk.cov["traces_validated_against_impl"] += len(cases)
