"""C20 — Candidate gathering always completes and reports what the servers confirmed."""
import vlib, tabgen, sim_common as sc

COQ_TARGETS = ["Props/Properties_C20.vo"]
META = dict(
    text="proof (partial): (a) the discovery list and its tick (agent/discovery.c priv_discovery_tick_unlocked) with the answer handlers of agent/conncheck.c "
         "(success, error classes, 401/438 re-authentication bounded by NICE_DISCOVERY_MAX_AUTH_RETRIES, 300 redirections bounded by "
         "NICE_DISCOVERY_MAX_REDIRECTS, stale / duplicate / garbage answers) are modelled in Coq with the STUN timer of C19; the server is an adversary "
         "choosing every answer and every silence. Proved for EVERY number of items and EVERY adversary: gathering terminates — once the tick has been "
         "driven for longer than n*((A+1)*round + MR*n*TX) (22.8 s for one item with the defaults) the list is freed and completion has been announced "
         "exactly once (explicit decreasing measure); completion is never announced before every item is done and at most once per run; a candidate only "
         "comes from a success answer matching the item's current transaction, at most one per item; a done item is final. The bound is tight in MR "
         "(without the limit no bound exists: that was genuine defect 1878027, found by this proof). Tie: the modelled statements and constants are checked "
         "verbatim against the sources on every run and a harness (disc_h.c includes discovery.c, real agent, scripted socket and clock) replays 400 "
         "adversarial scripts step by step against the model inside Coq. (b) Coq theorems over a model of priv_add_local_candidate_pruned (tied to agent/discovery.c by differential execution evaluated inside Coq): "
         "for EVERY sequence of discovery results the local candidate list holds no candidate redundant with an earlier one, none twice, none that was not supplied; "
         "a refusal always has an earlier redundant candidate as its reason; host candidates for new addresses are always kept; an unanswered transaction "
         "waits exactly 4 x RTO (from the C19 timer theorems). (c) Servers given by NAME (coq/Agent/LookupModel.v, 15 statements of agent.c / discovery.c checked "
         "verbatim): for EVERY number of lookups, every order in which the resolver answers land, succeed or fail, and every interleaving with the discovery "
         "timer, completion is announced at most once, only after every lookup has landed and the discovery has finished, and has been announced whenever "
         "nothing more can happen (the two behaviours of the code before fix a7c512a are kept as counter-examples). Completion 'exactly once and in bounded time whatever the servers do' is NOT proved: a real "
         "agent gathers in the deterministic simulator against scripted STUN/TURN servers (silent, late, duplicate, garbage, other transaction id, every "
         "error class, 401 then success, endless 401/438, alternate-server chains, NAT-mapped answers; 0..1 STUN x 0..3 TURN servers, 1..2 addresses, 1..2 "
         "components, loss on the server paths, gathering again after a restart) with completion count, time bound and the confirmed candidate set as oracles.",
    note="trusted: Coq kernel, harnesses, sim.c scripted servers, python oracles. Partial: completion/time bound by counterexample search.",
    technique="Coq proofs of termination of the discovery tick against an adversarial server (explicit bound, decreasing measure) and of redundancy-elimination invariants + source-text and differential ties evaluated inside Coq + deterministic simulation against scripted servers")
FINISH = dict(level="proof", trusted=["coq/Agent/GatherModel.v tied to agent/discovery.c (harness/gather_h.c, compared inside Coq)", "harness/sim.c scripted servers", "python oracles"],
              rule="server behaviours per props/sim_common.py STUN_MODES / TURN_MODES; non-trivial = gathering-done announced",
              assumptions=["UDP only (ICE-TCP, UPnP off)", "one STUN server (libnice supports one), TURN over UDP", "IPv4"])


def prebuild():
    s, o = sc.build_sim()
    return None if s else o


def gather_tie(chk):
    srcs = [s for s in vlib.AGENT_SRCS + vlib.SOCKET_SRCS + vlib.STUN_SRCS + ["agent/agent-enum-types.c"] if s != "agent/discovery.c"]
    objs, l = vlib.repo_objects(srcs)
    if not objs:
        chk.broken_obligation("impl-build-gather", l[-2000:]); return
    impl, o = vlib.link("gather_h", ["gather_h.c"], objs)
    if not impl:
        chk.broken_obligation("impl-build-gather", o[-2000:]); return
    rng = chk.rng
    cases = []
    for i in range(150 if chk.tier == "quick" else 3000):
        nip = rng.choice([1, 2, 3]); nport = rng.choice([1, 2])
        ops = []
        for _ in range(rng.choice([2, 5, 12, 30])):
            ops.append("%d:%d:%d:%d:%d:%d" % (rng.choice([0, 0, 1, 1, 2, 3, 3]), rng.choice([0, 0, 0, 1, 2]), rng.randrange(nip), rng.randrange(nport), rng.randrange(nip), rng.randrange(nport)))
        cases.append(ops)
    txt = "".join("p%d %s\n" % (i, " ".join(c)) for i, c in enumerate(cases))
    rc, so, se = vlib.run_lines(impl, txt)
    outs = [l.split(" ") for l in so.strip().split("\n")]
    if rc != 0 or len(outs) != len(cases):
        chk.broken_obligation("gather-harness", (se or so)[-1500:]); return
    mk = lambda x: "{| k_type := %s; k_tr := %s; k_ip := %s; k_port := %s; k_bip := %s; k_bport := %s |}" % tuple(x.split(":"))
    items = []
    for c, o_ in zip(cases, outs):
        bits = "[" + "; ".join("true" if b == "1" else "false" for b in o_[1]) + "]"
        fin = "[" + "; ".join(mk(x) for x in o_[2].split(",") if x) + "]"
        items.append("([%s], (%s, %s))" % ("; ".join(mk(x) for x in c), bits, fin))
        chk.count_case("prune %d" % len(c), True, "prune")
    body = ("From Coq Require Import ZArith List Bool.\nImport ListNotations.\nLocal Open Scope Z_scope.\n"
            "Definition ceq (a b : lcand) := (k_type a =? k_type b) && same_cand a b.\n"
            "Fixpoint leqb {A} (f : A -> A -> bool) (x y : list A) := match x, y with [], [] => true | a :: x', b :: y' => f a b && leqb f x' y' | _, _ => false end.\n"
            "Definition cases := [%s].\n"
            "Definition bad := filter (fun c => let '(xs, (eb, el)) := c in let '(b, l) := add_all [] xs in negb (leqb Bool.eqb b eb && leqb ceq l el)) cases.\n"
            "Eval vm_compute in (length bad, match bad with c :: _ => Some (fst c, add_all [] (fst c)) | [] => None end).\n") % ";\n".join(items)
    rcq, out = vlib.coq_eval(["Nice.Agent.GatherModel"], body)
    if rcq == 0 and "(0%nat, None)" in out.replace("\n", " ").replace("  ", " "):
        chk.cov["traces_validated_against_impl"] += len(items)
    else:
        chk.broken_obligation("correspondence:prune", "GatherModel and agent/discovery.c disagree:\n" + out[-1800:])
        for c, o_ in zip(cases, outs):
            fin = [x for x in o_[2].split(",") if x]
            keyf = lambda x: tuple(x.split(":")[1:])
            if len(set(map(keyf, fin))) != len(fin):
                chk.violation({"kind": "prune", "case": " ".join(c)}, "the local candidate list holds the same address/base/transport twice: %s" % o_[2]); return
            if any(x not in c for x in fin):
                chk.violation({"kind": "prune", "case": " ".join(c)}, "the local candidate list holds a candidate nobody supplied: %s" % o_[2]); return


def oracle(line, evs, meta):
    return sc.oracle_gather(evs, meta)


def pregen():
    """regenerate coq/Gen/Discovery.v (constants of the discovery tick) and check the modelled statements of discovery.c / conncheck.c"""
    import c20_discovery
    gi, err = c20_discovery.discovery_shape()
    if gi is None:
        return gi, err
    gl, errl = tabgen.lookup_shape()          # statements behind coq/Agent/LookupModel.v (name lookups and the completion test)
    if gl is None:
        return gl, errl
    return gi, ""


# witnesses of repaired defects, run first on every tier: a7c512a (relay servers whose names do not resolve were the last outstanding items: the
# gathering never completed), the same for the STUN server name
GATHER_CORPUS = [
    ("gathK1 seed,1041952725 agent,0,0,1,0,10.0.1.1 stream,0,2 net,0,0,1,10,3 relayhost,0,1,1,no-such-host.invalid,3478 relayhost,0,1,2,no-such-host.invalid,3478 "
     "gather,0,1 settle,40 run,30000 localcands,0,1,1 localcands,0,1,2",
     {"kind": "gather", "ncomp": 2, "ips": ("10.0.1.1",), "stun": None, "turns": [], "turns2": [], "again": False, "stun_v6": False}),
    ("gathK2 seed,5 agent,0,0,1,0,10.0.0.1 stream,0,1 net,0,0,1,1,3 props,0,stun-server,no-such-host.invalid prop,0,stun-server-port,3478 gather,0,1 settle,40 "
     "run,15000 localcands,0,1,1",
     {"kind": "gather", "ncomp": 1, "ips": ("10.0.0.1",), "stun": None, "turns": [], "turns2": [], "again": False, "stun_v6": False}),
]


def run(chk):
    gi, err = pregen()
    if gi is None:
        chk.broken_obligation("translator/table-extractor", err)
    chk.prove(["Props/Properties_C20.v"])
    gather_tie(chk)
    import c20_discovery
    c20_discovery.discovery_tie(chk)
    n = 1500 if chk.tier == "quick" else 60000
    cases = GATHER_CORPUS + [sc.gen_gather(chk.rng, i) for i in range(n)]
    mixed = chk.sub_rng("mixed-lookups")
    mcases = [sc.gen_gather(mixed, 100000 + i, mixed=True) for i in range(n // 8)]
    sc.run_sim(chk, cases, oracle, "sim-C20", token="gathering-done")
    sc.run_sim(chk, mcases, oracle, "sim-C20-mixed-lookups", token="gathering-done", compare=False)
    return chk.finish(**FINISH)


def replay(chk, path):
    import C11
    return C11.replay(chk, path)
