"""Scenario generators, trace parser and implementation-side oracles for the agent-level properties
(C01, C02-UDP, C03, C11, C12, C13, C14, C20).  Scenarios are lines for harness/sim.c (real libnice agents over
a virtual clock and a virtual UDP network); see sim.c for the ops."""
import re
import vlib

STATES = ["DISCONNECTED", "GATHERING", "CONNECTING", "CONNECTED", "READY", "FAILED"]
OPT_REGULAR, OPT_RELIABLE, OPT_LITE, OPT_TRICKLE, OPT_RENOM, OPT_CONSENT = 1, 2, 4, 8, 16, 32


def build_sim():
    srcs = [s for s in vlib.AGENT_SRCS + vlib.SOCKET_SRCS + vlib.STUN_SRCS + ["agent/agent-enum-types.c"] if s not in ("socket/udp-bsd.c", "stun/rand.c", "agent/interfaces.c")]
    objs, l = vlib.repo_objects(srcs)
    if not objs:
        return None, l
    return vlib.link("sim", ["sim.c"], objs)


# ------------------------------------------------------------------ trace parsing
class Ev:
    __slots__ = ("t", "kind", "f")

    def __init__(self, t, kind, f):
        self.t, self.kind, self.f = t, kind, f

    def __repr__(self):
        return "%d %s %s" % (self.t, self.kind, " ".join(self.f))


def parse_trace(out):
    parts = out.split(" | ")
    evs = []
    for p in parts[1:]:
        w = p.split()
        if len(w) < 2:
            continue
        try:
            evs.append(Ev(int(w[0]), w[1], w[2:]))
        except ValueError:
            continue
    return parts[0].strip(), evs


def sigs(evs, agent=None, name=None):
    for e in evs:
        if e.kind == "sig" and (agent is None or e.f[0] == str(agent)) and (name is None or e.f[1] == name):
            yield e


# ------------------------------------------------------------------ scenario building blocks
def two_agents(rng, compat=0, opts=(0, 0), ctl=(1, 0), ips=(("10.0.0.1",), ("10.0.1.1",)), ncomp=1, extra=""):
    ops = ["seed,%d" % rng.randrange(1, 1 << 30)]
    for i in (0, 1):
        ops.append("agent,%d,%d,%d,%d,%s" % (i, compat, ctl[i], opts[i], ",".join(ips[i])))
    if extra:
        ops += extra.split()
    ops += ["stream,0,%d" % ncomp, "stream,1,%d" % ncomp]
    return ops


def signalling(rng, ncomp=1, trickle=False, order=None):
    """credentials + candidates exchange, in a random order, optionally one candidate at a time"""
    steps = [("creds", 0, 1), ("creds", 1, 0)]
    for c in range(1, ncomp + 1):
        steps += [("cands", 0, 1, c), ("cands", 1, 0, c)]
    if order is None:
        rng.shuffle(steps)
    ops = []
    for s in steps:
        if s[0] == "creds":
            ops.append("creds,%d,%d,1" % (s[1], s[2]))
        elif trickle:
            for k in rng.sample(range(3), 3):
                ops.append("cands,%d,%d,1,%d,%d" % (s[1], s[2], s[3], k))
                if rng.random() < 0.5:
                    ops.append("run,%d" % rng.choice([1, 5, 20, 60]))
        else:
            ops.append("cands,%d,%d,1,%d" % (s[1], s[2], s[3]))
        if rng.random() < 0.5:
            ops.append("run,%d" % rng.choice([1, 5, 20, 60, 200]))
    return ops


def final_queries(ncomp=1):
    ops = []
    for i in (0, 1):
        for c in range(1, ncomp + 1):
            ops += ["state,%d,1,%d" % (i, c), "selected,%d,1,%d" % (i, c)]
    return ops


# ------------------------------------------------------------------ oracles on traces
WHITELIST = None   # filled from the generated Coq table by the C11 check (pairs of state names)


def component_sequences(evs):
    """{(agent, stream, comp): [states announced]}"""
    seq = {}
    for e in sigs(evs, name="state"):
        seq.setdefault((e.f[0], e.f[2], e.f[3]), []).append(e)
    return seq


def oracle_states(evs, whitelist=None):
    """C11: no repeated state, only whitelisted transitions, getter agrees at quiescent points, CONNECTED/READY
    implies a selected pair exists; gathering-done once per gathering run; nothing after remove_stream."""
    for key, es in component_sequences(evs).items():
        prev = "DISCONNECTED"
        for k, e in enumerate(es):
            st = e.f[4]
            if st == prev:
                return "component %s announced %s twice in a row" % (key, st)
            if whitelist is not None and (prev, st) not in whitelist:
                return "component %s announced the undocumented transition %s -> %s" % (key, prev, st)
            if prev == "CONNECTED" and st == "CONNECTING":
                # documented for one cause only ("a tcp socket of a connected pair is disconnected, in conn_check_prune_socket()");
                # the simulator has UDP sockets only and none of them is ever removed while the component lives
                return "component %s went CONNECTED -> CONNECTING although no socket of a connected pair was lost (the only documented cause)" % (key,)
            if st in ("CONNECTED", "READY"):
                m = [x for x in e.f if x.startswith("selected=")]
                if m and m[0] != "selected=1":
                    return "component %s announced %s without a selected pair" % (key, st)
            # the getter must agree with the LAST state announced in a burst (same virtual instant / same dispatch)
            last_in_burst = k + 1 == len(es) or es[k + 1].t != e.t
            if last_in_burst:
                g = [x for x in e.f if x.startswith("get=")]
                if g and g[0] != "get=" + st:
                    return "component %s: announced %s but the getter returns %s" % (key, st, g[0][4:])
            prev = st
    # explicit getter queries agree with the last announcement
    last = {}
    gone = set()
    for e in evs:
        if e.kind == "sig" and e.f[1] == "state":
            last[(e.f[0], e.f[2], e.f[3])] = e.f[4]
        if e.kind == "api" and e.f[1] == "remove_stream":
            for k in [k for k in last if k[0] == e.f[0] and k[1] == e.f[2]]:
                del last[k]
            gone.add((e.f[0], e.f[2]))
        if e.kind == "api" and len(e.f) > 4 and e.f[1] == "get_state":
            key = (e.f[0], e.f[2], e.f[3])
            if (e.f[0], e.f[2]) in gone:
                continue          # stale stream id: the getter's answer for it is not constrained
            exp = last.get(key, "DISCONNECTED")
            if e.f[4] != "=" + exp and e.f[4] != "=DISCONNECTED":
                return "component %s: getter returns %s, last announced %s" % (key, e.f[4][1:], exp)
    # gathering-done: at most once per started gathering run (the signal of an immediate completion is emitted inside
    # the gather call, i.e. before the call's own trace line, so runs are counted per stream, not sequentially)
    runs, done = {}, {}
    for e in evs:
        if e.kind == "api" and len(e.f) > 2 and e.f[1] == "gather" and e.f[-1] == "=1":
            runs[(e.f[0], e.f[2])] = runs.get((e.f[0], e.f[2]), 0) + 1
        if e.kind == "sig" and e.f[1] == "gathering-done":
            done[(e.f[0], e.f[2])] = done.get((e.f[0], e.f[2]), 0) + 1
    for k, v in done.items():
        if v > runs.get(k, 0):
            return "candidate-gathering-done announced %d times for %d gathering runs (agent %s stream %s)" % (v, runs.get(k, 0), k[0], k[1])
    # no component / candidate signal for a stream after remove_stream returned
    removed = set()
    for e in evs:
        if e.kind == "api" and e.f[1] == "remove_stream":
            removed.add((e.f[0], e.f[2]))
        if e.kind == "api" and e.f[1] == "add_stream":
            removed.discard((e.f[0], e.f[-1].lstrip("=")))
        if e.kind == "sig" and e.f[1] in ("state", "new-candidate", "new-remote-candidate", "selected-pair", "gathering-done") and (e.f[0], e.f[2]) in removed:
            return "signal %s for stream %s of agent %s after remove_stream returned" % (e.f[1], e.f[2], e.f[0])
    return None


def final_state(evs, agent, comp="1"):
    st = None
    for e in evs:
        if e.kind == "api" and e.f[0] == str(agent) and e.f[1] == "get_state" and e.f[3] == comp:
            st = e.f[4][1:]
    return st


def final_selected(evs, agent, comp="1"):
    r = None
    for e in evs:
        if e.kind == "api" and e.f[0] == str(agent) and e.f[1] == "get_selected_pair" and e.f[3] == comp:
            r = (e.f[4], e.f[5], e.f[6])
    return r


def oracle_convergence(evs, ncomp=1, after=None, nat=None):
    """C01 end condition: both READY on mirrored pairs, exactly one controlling role in the checks sent once quiet.
    nat: private ip -> public ip; an address is compared as the other side sees it."""
    def pub(a):
        ip, port = a.rsplit(":", 1)
        return "%s:%s" % ((nat or {}).get(ip, ip), port)
    for c in range(1, ncomp + 1):
        a, b = final_state(evs, 0, str(c)), final_state(evs, 1, str(c))
        if a != "READY" or b != "READY":
            return "component %d did not reach READY on both agents (A=%s, B=%s)" % (c, a, b)
        sa, sb = final_selected(evs, 0, str(c)), final_selected(evs, 1, str(c))
        if not sa or not sb or sa[0] != "=1" or sb[0] != "=1":
            return "no selected pair reported for component %d" % c
        if pub(sa[1]) != pub(sb[2]) or pub(sa[2]) != pub(sb[1]):
            return "selected pairs are not mirror images for component %d: A %s>%s, B %s>%s" % (c, sa[1], sa[2], sb[1], sb[2])
    # roles: digest lines at the end
    ctl = {}
    for e in evs:
        if e.kind == "dig":
            ctl[e.f[0]] = e.f[1]
    if len(ctl) >= 2 and ctl.get("0") == ctl.get("1"):
        return "both agents end in the same role (%s)" % ctl.get("0")
    # the role attribute of the checks sent in the last part of the run
    tmax = max((e.t for e in evs), default=0)
    roles = {}
    for e in evs:
        if e.kind == "pkt" and e.t > tmax - 3000 and "stun" in e.f and "c0" in e.f:
            src = e.f[0].rsplit(":", 1)[0]
            src = {v: k for k, v in (nat or {}).items()}.get(src, src)
            for x in e.f:
                if x.startswith("ctl=") and x != "ctl=-1":
                    roles.setdefault(src, set()).add(x)
    flat = [next(iter(v)) for v in roles.values() if len(v) == 1]
    if any(len(v) > 1 for v in roles.values()):
        return "an agent sends checks with both role attributes once quiet"
    if len(flat) >= 2 and len(set(flat)) == 1:
        return "both agents send checks as %s once quiet" % flat[0]
    return None


def oracle_checklist_sorted(evs):
    """C15 on live sessions: every digest shows each stream's check list in descending pair priority"""
    for e in evs:
        if e.kind != "dig":
            continue
        txt = " ".join(e.f)
        for m in re.finditer(r"s\d+\[([^\]]*)\]", txt):
            pr = [int(x.split(":")[-2]) for x in m.group(1).split() if x.count(":") >= 4]
            if any(pr[i] < pr[i + 1] for i in range(len(pr) - 1)):
                return "check list of agent %s not in descending priority order: %s" % (e.f[0], pr)
    return None


def oracle_data(evs):
    """C02 (UDP): every message received was sent with the same bytes (hash) and length; none altered/merged/split."""
    sent = {}
    for e in evs:
        if e.kind == "api" and e.f[1] == "send" and e.f[-1].startswith("=") and int(e.f[-1][1:]) > 0:
            sent.setdefault((e.f[4], e.f[5]), []).append(e.t)
    for e in evs:
        if e.kind == "rx":
            key = (e.f[3], e.f[4])
            if key not in sent:
                return "agent %s received a %s-byte message (hash %s) that nobody sent" % (e.f[0], e.f[3], e.f[4])
    return None


def aborted(out):
    return " ABORT" in out


# ------------------------------------------------------------------ scenario generators
def gen_convergence(rng, i, kind="conv"):
    """C01-style scenario: random nomination mode, roles, tie-breakers, 1..3 addresses, 1..2 components, network policy
    with fewer consecutive losses than the transmission limit, random signalling order, optional trickle."""
    compat = 0
    nomin = [rng.choice([0, OPT_REGULAR]) for _ in (0, 1)]
    trickle = rng.random() < 0.3
    opts = tuple(nomin[k] | (OPT_TRICKLE if trickle else 0) for k in (0, 1))
    ctl = rng.choice([(1, 0), (0, 1), (1, 1), (0, 0)])
    na = rng.choice([1, 1, 2, 3]); nb = rng.choice([1, 1, 2, 3])
    ips = (tuple("10.0.0.%d" % (k + 1) for k in range(na)), tuple("10.0.1.%d" % (k + 1) for k in range(nb)))
    ncomp = rng.choice([1, 1, 2])
    ops = two_agents(rng, compat, opts, ctl, ips, ncomp)
    if rng.random() < 0.5:
        ta, tb = rng.randrange(1 << 62), rng.randrange(1 << 62)
        ops[3:3] = ["tie,0,%d" % ta, "tie,1,%d" % (tb if tb != ta else ta + 1)]
    drop = rng.choice([0, 0, 0.1, 0.25, 0.4])
    # NAT (1:1, port preserving, full cone): one side behind it (the other learns a peer-reflexive candidate from the first check), or both
    # sides with a STUN server giving them server-reflexive candidates; the private addresses are then unroutable from outside
    natmap = {}
    r = rng.random()
    if kind == "conv" and r < 0.3:
        sides = (0,) if r < 0.1 else (1,) if r < 0.2 else (0, 1)
        for sd in sides:
            for ip in ips[sd]:
                pub = "198.51.%s.%s" % tuple(ip.split(".")[2:])
                natmap[ip] = pub
                ops.append("nat,%s,%s" % (ip, pub))
        if len(sides) == 2:
            ops += ["server,10.9.0.1,3478,ok", "stun,0,10.9.0.1,3478", "stun,1,10.9.0.1,3478"]
    ops.append("net,%s,%s,%d,%d,%d" % (drop, rng.choice([0, 0, 0.1, 0.3]), rng.choice([1, 5, 20]), rng.choice([1, 30, 120, 200]), rng.choice([2, 3])))   # one-way delay <= 200 ms: a round trip always beats the shortest
    # per-attempt timeout (500 ms), so an attempt the network delivers is not lost to the timer instead
    ops += ["gather,0,1", "gather,1,1", "run,%d" % (rng.choice([0, 10, 100]) if len(natmap) < len(ips[0]) + len(ips[1]) else 700)]
    ops += signalling(rng, ncomp, trickle=trickle and rng.random() < 0.7 and not natmap)
    ops += ["run,%d" % rng.choice([4000, 8000, 15000]), "digest", "run,6000", "digest"]
    # data both ways once connected
    for _ in range(rng.randrange(0, 4)):
        ops.append("send,%d,1,%d,%d,%d" % (rng.randrange(2), rng.randrange(1, ncomp + 1), rng.choice([1, 100, 1200, 1472, 9000, 65535]), rng.randrange(250)))
    ops += ["run,3000"] + final_queries(ncomp)
    return "%s%d %s" % (kind, i, " ".join(ops)), {"kind": kind, "ncomp": ncomp, "nat": natmap}


def gen_lifecycle(rng, i):
    """C11/C12-style scenario: API histories — gather, credentials/candidates, restart, remove and re-add streams,
    forced pair selection, consent loss, sends, black holes — interleaved with the network."""
    opts = tuple(rng.choice([0, OPT_REGULAR]) | (OPT_CONSENT if rng.random() < 0.4 else 0) for _ in (0, 1))
    ncomp = rng.choice([1, 2])
    ops = two_agents(rng, 0, opts, rng.choice([(1, 0), (0, 1), (1, 1)]), (("10.0.0.1",), ("10.0.1.1",)), ncomp)
    ops.append("net,%s,%s,1,%d,3" % (rng.choice([0, 0, 0.2]), rng.choice([0, 0.1]), rng.choice([1, 50])))
    nxt = [2, 2]             # next stream id each agent will hand out
    late_stream = None
    if rng.random() < 0.15:
        # a second stream that is configured (relay server) but not gathered yet while the first stream gathers: nothing may be announced for it
        a = rng.randrange(2)
        ops += ["server,10.9.1.1,3478,%s" % rng.choice(["ok", "oknat", "silent"]), "stream,%d,1" % a, "relay,%d,2,1,10.9.1.1,3478" % a]
        nxt[a] = 3; late_stream = a
    ops += ["gather,0,1", "gather,1,1", "run,20"]
    if late_stream is not None and rng.random() < 0.6:
        ops += ["run,%d" % rng.choice([0, 100, 3000]), "gather,%d,2" % late_stream, "run,%d" % rng.choice([50, 3000])]
    if rng.random() < 0.2:
        # a forced selection that cannot succeed, on a component that is not connected yet: nothing may be announced
        ops += ["setalien,%d,1,%d,%d" % (rng.randrange(2), rng.randrange(1, ncomp + 1), rng.randrange(2)), "state,0,1,1", "state,1,1,1", "run,%d" % rng.choice([0, 30])]
    ops += signalling(rng, ncomp) + ["run,%d" % rng.choice([200, 2000, 6000])]
    for _ in range(rng.randrange(2, 12)):
        r = rng.random(); a = rng.randrange(2)
        if r < 0.15:
            rop = (lambda x: "restart,%d" % x) if rng.random() < 0.5 else (lambda x: "restart_stream,%d,1" % x)
            ops.append(rop(a))
            if rng.random() < 0.5:     # the transition a restart causes is announced before the call returns: ask the getter straight away
                ops += ["state,%d,1,%d" % (a, c) for c in range(1, ncomp + 1)]
            ops += ["run,%d" % rng.choice([0, 50, 500]), "creds,%d,%d,1" % (a, 1 - a)]
            if rng.random() < 0.8:
                ops += [rop(1 - a), "creds,%d,%d,1" % (1 - a, a)]
            ops += ["gather,0,1", "gather,1,1", "run,20"]
            for c in range(1, ncomp + 1):
                ops += ["cands,0,1,1,%d" % c, "cands,1,0,1,%d" % c]
        elif r < 0.25:
            ops += ["remove_stream,%d,1" % a, "run,%d" % rng.choice([0, 10, 500])]
            if rng.random() < 0.6:
                ops += ["stream,%d,%d" % (a, ncomp)]; nxt[a] += 1
        elif r < 0.30:
            # a further stream, added and gathered while the earlier ones have long finished gathering
            ops += ["stream,%d,%d" % (a, rng.choice([1, 2])), "run,%d" % rng.choice([0, 20]), "gather,%d,%d" % (a, nxt[a]), "run,%d" % rng.choice([0, 20, 300])]; nxt[a] += 1
        elif r < 0.33:
            ops.append("set_selected,%d,1,%d" % (a, rng.randrange(1, ncomp + 1)))
        elif r < 0.35:
            # a forced selection that cannot succeed (no local candidate of that family / transport): must not announce anything
            ops.append("setalien,%d,1,%d,%d" % (a, rng.randrange(1, ncomp + 1), rng.randrange(2)))
        elif r < 0.45:
            ops.append("consent_lost,%d,1,%d" % (a, rng.randrange(1, ncomp + 1)))
        elif r < 0.6:
            ops.append("send,%d,1,%d,%d,%d" % (a, rng.randrange(1, ncomp + 1), rng.choice([1, 100, 1472, 20000]), rng.randrange(250)))
        elif r < 0.7:
            ops += ["hole,10.0.%d.1,10.0.%d.1,%s" % (a, 1 - a, rng.choice(["on", "off"]))]
        elif r < 0.8:
            ops += ["creds,%d,%d,1" % (a, 1 - a), "cands,%d,%d,1,%d" % (a, 1 - a, rng.randrange(1, ncomp + 1))]
        else:
            ops.append("run,%d" % rng.choice([10, 300, 5000, 35000]))
        for c in range(1, ncomp + 1):
            if rng.random() < 0.3:
                ops.append("state,%d,1,%d" % (a, c))
    ops += ["run,2000", "digest"] + final_queries(ncomp)
    return "life%d %s" % (i, " ".join(ops)), {"kind": "lifecycle", "ncomp": ncomp}


def run_sim(chk, cases, oracle, what, timeout=1500, leaks=False, compare=True, token="READY"):
    """compare=True runs every scenario twice (two processes) and demands identical traces: a determinism check of the simulator."""
    sim, o = build_sim()
    if not sim:
        chk.broken_obligation("sim-build", o[-3000:])
        return
    lines = [c[0] for c in cases]
    metas = {c[0].split()[0]: c[1] for c in cases}

    def orc(line, out):
        if aborted(out):
            return "an internal assertion of libnice was reached (abort) during the scenario"
        _id, evs = parse_trace(out)
        m = dict(metas.get(line.split()[0], {})); m["_out"] = out
        return oracle(line, evs, m)
    vlib.correspond(chk, [(l, metas[l.split()[0]].get("kind", "sim")) for l in lines], sim, sim, oracle=orc, what=what,
                    nontrivial=lambda l, o_: o_ is not None and token in o_, timeout=timeout, compare=compare,
                    env=dict({"ASAN_OPTIONS": "detect_leaks=%d:abort_on_error=0" % (1 if leaks else 0), "G_SLICE": "always-malloc"},
                             **({"SIM_LEAKCHECK": "1", "LSAN_OPTIONS": "max_leaks=4"} if leaks else {})))


# ------------------------------------------------------------------ C03: attacker scenarios and oracles
ATK_NET = "10.66."


def gen_attack(rng, i):
    """C03: (a) a C01-style session with the built-in attacker (knows usernames, sees transaction ids, spoofs sources, ignorant of
    the passwords) firing from the start; (b) an ISOLATED victim: agent 0 has the peer's credentials and candidates but every
    packet from the peer is black-holed, so anything agent 0 shows beyond CONNECTING -> FAILED was caused by the attacker."""
    if rng.random() < 0.6:
        line, meta = gen_convergence(rng, i, kind="atk")
        ops = line.split(" ")
        k = next(j for j, o in enumerate(ops) if o.startswith("gather,"))
        ops.insert(k, "attacker,%d,%d" % (rng.choice([3, 7, 20, 50]), rng.choice([16383, 16383, 0x3fc, 0x4e0, 0x61c, 0x400, 0x800, 0x2000, 0x2404])))
        if rng.random() < 0.5 and not meta.get("nat"):
            # a STUN server that never answers keeps the discovery transactions of every host candidate pending for 2 s
            ops[k:k] = ["server,10.9.0.1,3478,silent", "stun,0,10.9.0.1,3478", "stun,1,10.9.0.1,3478"]
        meta = dict(meta, kind="atk-conv")
        return " ".join(ops), meta
    na, nb = rng.choice([1, 2]), rng.choice([1, 2])
    ips = (tuple("10.0.0.%d" % (k + 1) for k in range(na)), tuple("10.0.1.%d" % (k + 1) for k in range(nb)))
    ctl = rng.choice([(1, 0), (0, 1), (1, 1), (0, 0)])
    opts = tuple(rng.choice([0, OPT_REGULAR]) | (OPT_CONSENT if rng.random() < 0.3 else 0) for _ in (0, 1))
    # every compatibility mode that authenticates checks with MESSAGE-INTEGRITY and FINGERPRINT: RFC 5245 (0), WLM2009 (3), OC2007R2 (5)
    compat = rng.choice([0, 0, 3, 5])
    ops = two_agents(rng, compat, opts, ctl, ips, 1)
    for b in ips[1]:
        for a in ips[0]:
            ops.append("hole,%s,%s,on" % (b, a))
    ops.append("attacker,%d,%d" % (rng.choice([2, 5, 11]), rng.choice([16383, 16383, 0x7fc, 0x6ec, 0x4e0, 0x400, 0x1800, 0x1802, 0x2000, 0x2404])))
    if rng.random() < 0.5:
        ops += ["server,10.9.0.1,3478,silent", "stun,0,10.9.0.1,3478"]
    ops += ["gather,0,1", "gather,1,1", "run,%d" % rng.choice([0, 10])] + signalling(rng, 1)
    ops += ["run,%d" % rng.choice([3000, 9000]), "digest", "send,0,1,1,100,7", "run,4000"] + final_queries(1)
    return "iso%d %s" % (i, " ".join(ops)), {"kind": "atk-iso", "ncomp": 1, "ctl0": ctl[0], "ips0": ips[0], "compat": compat}


def _tok(f, prefix):
    for w in f:
        if w.startswith(prefix):
            return w[len(prefix):]
    return None


def oracle_data_gated(evs, meta):
    """C03, delivery clause: a datagram reaches the application only if it was sent by the peer's application, or - the attacker can
    spoof source addresses and ICE does not authenticate media - if its source address had completed an authenticated check with the
    receiving agent BEFORE: the agent answered a request from that address with a success response (only done after validating the
    request's MESSAGE-INTEGRITY), or it received a success response of the honest peer from that address.  'pkt' lines are packets of
    the honest agents (source as seen on the wire, destination as the sender wrote it), 'atk' lines are injections."""
    nat = meta.get("nat") or {}
    owner = {}                      # ip (private and public) -> agent
    for e in evs:
        if e.kind == "sig" and e.f[1] == "new-candidate":
            ip = e.f[4].split("/")[4].rsplit(":", 1)[0]
            owner[ip] = e.f[0]
            if ip in nat:
                owner[nat[ip]] = e.f[0]
    sent = set()
    auth = {}                       # agent -> sources admitted by an authenticated check, as that agent sees them
    spoofed = []                    # (t, src, dst, len) of spoofed-source plain data not yet delivered
    honest_stun = []                # (t, src, dst, len) of the honest agents' own STUN messages
    for e in evs:
        if e.kind == "api" and e.f[1] == "send" and e.f[-1].startswith("=") and int(e.f[-1][1:]) > 0:
            sent.add((e.f[4], e.f[5]))
        elif e.kind == "pkt" and "stun" in e.f and "c3" in e.f and "err=487" in e.f:
            # a role-conflict answer is only built after the request's MESSAGE-INTEGRITY was validated (conncheck.c: the reply is
            # created after stun_agent_validate succeeded): the source proved knowledge of the password and is admitted as well
            me = owner.get(e.f[0].rsplit(":", 1)[0])
            if me is not None and not e.f[1].startswith(ATK_NET):
                auth.setdefault(me, set()).add(e.f[1])
        elif e.kind == "pkt" and "stun" in e.f and "c2" in e.f:
            honest_stun.append((e.t, e.f[0], e.f[1], e.f[-1].split("=")[1] if e.f[-1].startswith("n=") else None, _tok(e.f, "h=")))
            src, dst, fate = e.f[0], e.f[1], e.f[2]
            if dst.startswith(ATK_NET) and "m1" in e.f:
                return "agent answered a Binding request of the attacker (%s) with a success response: %s" % (dst, " ".join(e.f))
            me = owner.get(src.rsplit(":", 1)[0])
            if me is not None:
                auth.setdefault(me, set()).add(dst)           # answered a validated request of dst
            you = owner.get(dst.rsplit(":", 1)[0])
            if you is not None and fate in ("ok", "dup"):
                auth.setdefault(you, set()).add(src)          # (is about to get) the honest peer's success response from src
        elif e.kind == "pkt" and "stun" in e.f and e.f[2] in ("ok", "dup", "ok-resp-lost"):
            honest_stun.append((e.t, e.f[0], e.f[1], e.f[-1].split("=")[1] if e.f[-1].startswith("n=") else None, _tok(e.f, "h=")))
        elif e.kind == "atk":
            # any injection may end up as "data" at the receiver: plain media, or a forged STUN message that the receiver's STUN flavour does
            # not even recognise as STUN (the attacker speaks RFC 5389; for an OC2007R2 agent its padded messages are just bytes)
            spoofed.append((e.t, e.f[1], e.f[2], e.f[-1].split("=")[1] if e.f[-1].startswith(("len=", "n=")) else None, _tok(e.f, "h=")))
        elif e.kind == "rx":
            if (e.f[3], e.f[4]) in sent:
                continue
            hit = [x for x in spoofed if x[3] in (None, e.f[3]) and x[4] in (None, e.f[4]) and owner.get(x[2].rsplit(":", 1)[0]) == e.f[0] and e.t - x[0] <= 1]
            if hit and all(x[1] in auth.get(e.f[0], ()) for x in hit):
                continue        # spoofed media from an address that had completed an authenticated check: outside the property
            if not hit and any(x[3] == e.f[3] and x[4] in (None, e.f[4]) and owner.get(x[2].rsplit(":", 1)[0]) == e.f[0] and x[1] in auth.get(e.f[0], ()) and 0 <= e.t - x[0] <= 250
                               for x in honest_stun):
                # the honest peer's own STUN message handed to the application (OC2007R2 sends every check a second time in a legacy form
                # that the receiving libnice agent does not recognise as STUN): ICE control delivered as data is C02's clause, not this one -
                # its source had completed an authenticated check
                continue
            return "agent %s received a %s-byte message (hash %s) that nobody sent%s" % (
                e.f[0], e.f[3], e.f[4], " (injected from %s, which never completed an authenticated check with it)" % hit[0][1] if hit else "")
    return None


def oracle_no_attacker_influence(evs, meta):
    for e in evs:
        txt = " ".join(e.f)
        if e.kind == "sig" and ATK_NET in txt:
            return "an attacker address shows up in a signal: %s" % txt
        if e.kind == "dig" and ATK_NET in txt:
            return "an attacker address sits in a check list / selected pair: %s" % txt[:300]
        if e.kind == "api" and "get_selected_pair" in txt and ATK_NET in txt:
            return "selected pair uses an attacker address: %s" % txt
    r = oracle_data_gated(evs, meta)
    if r:
        return r
    if meta.get("kind") == "atk-iso":
        allowed = {"GATHERING", "CONNECTING", "FAILED"}
        for e in evs:
            if e.kind == "sig" and e.f[0] == "0":
                if e.f[1] == "state" and e.f[4] not in allowed:
                    return "isolated agent (hears only the attacker) went to %s" % e.f[4]
                if e.f[1] in ("selected-pair", "new-remote-candidate", "initial-binding-request"):
                    return "isolated agent (hears only the attacker) emitted %s" % " ".join(e.f[1:])
            if e.kind == "rx" and e.f[0] == "0":
                return "isolated agent delivered data to the application: %s" % " ".join(e.f)
            if e.kind == "pkt" and "stun" in e.f and "c0" in e.f and e.f[0].rsplit(":", 1)[0] in meta["ips0"]:
                want = "ctl=%d" % meta["ctl0"]
                if "ctl=-1" in e.f:
                    continue        # no role attribute: a STUN-server discovery request, not a connectivity check
                if want not in e.f:
                    return "isolated agent changed role: started as %s, sends %s" % (want, [x for x in e.f if x.startswith("ctl=")])
            if e.kind == "api" and e.f[0] == "0" and e.f[1] == "send" and e.f[-1] != "=-1":
                return "isolated agent accepted application data for sending (%s) although no pair was ever validated" % " ".join(e.f)
    return None


# ------------------------------------------------------------------ C13: consent freshness / keepalives
G_IO_ERROR_PERMISSION_DENIED = 14


def gen_consent(rng, i):
    """C13: converge on a loss-free network with a FIXED one-way delay (so the trace gives delivery times), then
    (a) blackout of one or both directions for a chosen duration, (b) local revocation on one side at a chosen moment,
    (c) a long idle session; application sends probe the send gate throughout."""
    kind = rng.choice(["blackout", "blackout", "revoke", "idle", "restart"]) if rng.random() > 0.04 else "longloss"
    if kind == "restart":
        return gen_consent_restart(rng, i)
    if kind == "longloss":
        # a session of 45 .. 60 minutes over a network that loses a third to a half of the check attempts (never three in a row, so an answer arrives
        # well within every 30 s): consent must hold for the whole session (each lost answer used to leave a transaction behind: fix e9d3c51)
        opts = [OPT_CONSENT | rng.choice([0, OPT_REGULAR]) for _ in (0, 1)]
        delay = rng.choice([1, 5, 20])
        ops = two_agents(rng, 0, tuple(opts), rng.choice([(1, 0), (0, 1)]), (("10.0.0.1",), ("10.0.1.1",)), 1)
        ops.append("net,0,0,%d,%d,3" % (delay, delay))
        ops += ["gather,0,1", "gather,1,1", "run,10"] + signalling(rng, 1) + ["run,6000", "net,%s,0,%d,%d,3" % (rng.choice([0.3, 0.45]), delay, delay)]
        for _ in range(rng.choice([9, 12])):
            ops += ["run,300000"] + ["send,%d,1,1,64,%d" % (a, rng.randrange(200)) for a in (0, 1)]
        ops += ["run,1000"] + final_queries(1)
        return "cons%d %s" % (i, " ".join(ops)), {"kind": "consent-longloss", "ncomp": 1, "delay": delay, "opts": opts}
    opts = [rng.choice([0, OPT_REGULAR]) | (OPT_CONSENT if rng.random() < 0.75 else 0) for _ in (0, 1)]
    if kind == "revoke":
        opts = [o | OPT_CONSENT for o in opts]
    reliable = kind == "revoke" and rng.random() < 0.3
    if reliable:
        opts = [o | OPT_RELIABLE for o in opts]      # reliable mode: application data travels through pseudo-TCP, the send gate must hold there too
    ncomp = rng.choice([1, 1, 2])
    delay = rng.choice([1, 5, 20, 50])
    ips = (("10.0.0.1",), ("10.0.1.1",))
    if kind == "revoke" and rng.random() < 0.6:
        # several addresses per side: after the revocation checks keep arriving from sources other than the selected pair's remote address
        ips = tuple(tuple("10.0.%d.%d" % (x, k + 1) for k in range(rng.choice([1, 2, 3]))) for x in (0, 1))
    ops = two_agents(rng, 0, tuple(opts), rng.choice([(1, 0), (0, 1)]), ips, ncomp)
    ops.append("net,0,0,%d,%d,3" % (delay, delay))
    ops += ["gather,0,1", "gather,1,1", "run,10"]
    meta = {"kind": "consent-" + kind, "ncomp": ncomp, "delay": delay, "opts": opts}
    multi = kind == "idle" and rng.random() < 0.5
    if multi:
        # a second stream beside the judged one, removed on one or both sides once the session is up: the keepalives / consent checks of the
        # remaining stream must go on (the keepalive timer is agent-wide)
        ops += ["stream,0,1", "stream,1,1", "gather,0,2", "gather,1,2", "run,10", "creds,0,1,2", "creds,1,0,2", "cands,0,1,2,1", "cands,1,0,2,1"]
    if kind == "revoke":
        when = "ready" if reliable else rng.choice(["early", "mid", "ready", "restarted"])
        who = rng.randrange(2); comp = rng.randrange(1, ncomp + 1)
        meta.update(who=who, comp=comp, when=when)
        sig = signalling(rng, ncomp)
        if when == "early":
            ops += ["consent_lost,%d,1,%d" % (who, comp)] + sig
        elif when == "mid":
            ops += sig + ["run,%d" % rng.choice([30, 90, 300]), "consent_lost,%d,1,%d" % (who, comp)]
        elif when == "restarted":
            # both sides restart while READY and exchange the new credentials only: the old selected pair lives on with an empty check list
            # (no check pair stands for it any more); the revocation must reach it all the same (seeded change C13-9)
            ops += sig + ["run,%d" % rng.choice([4000, 9000, 21000]), "restart,0", "restart,1", "creds,0,1,1", "creds,1,0,1", "run,%d" % rng.choice([50, 300, 2000]),
                          "consent_lost,%d,1,%d" % (who, comp)]
        else:
            ops += sig + ["run,%d" % rng.choice([4000, 9000, 21000]), "consent_lost,%d,1,%d" % (who, comp)]
        for _ in range(rng.choice([6, 20])):
            ops += ["run,%d" % rng.choice([500, 1500, 3000])] + ["send,%d,1,%d,100,%d" % (a, c, rng.randrange(200)) for a in (0, 1) for c in range(1, ncomp + 1)]
    else:
        ops += signalling(rng, ncomp) + ["run,6000"]
        pre = rng.choice([0, 3000, 11000])
        ops += ["run,%d" % pre] if pre else []
        if kind == "blackout":
            dirs = rng.choice([("01",), ("10",), ("01", "10")])
            dur = rng.choice([8000, 20000, 23000, 38000, 45000, 70000, 10 ** 9])
            for d in dirs:
                ops.append("hole,10.0.%s.1,10.0.%s.1,on" % (d[0], d[1]))
            t = 0
            total = rng.choice([60000, 90000])
            off = False
            while t < total:
                step = rng.choice([1000, 2000, 3500])
                ops.append("run,%d" % step); t += step
                if not off and t >= dur:
                    for d in dirs:
                        ops.append("hole,10.0.%s.1,10.0.%s.1,off" % (d[0], d[1]))
                    off = True
                ops += ["send,%d,1,%d,64,%d" % (a, rng.randrange(1, ncomp + 1), rng.randrange(200)) for a in (0, 1)]
            meta.update(dirs=dirs, dur=dur)
        else:
            rm = [(rng.randrange(0, 5), a) for a in rng.choice([(0,), (1,), (0, 1)])] if multi else []
            for k in range(rng.choice([4, 12])):
                ops += ["remove_stream,%d,2" % a for (kk, a) in rm if kk == k]
                ops += ["run,%d" % rng.choice([20000, 45000, 70000])] + ["send,%d,1,1,10,%d" % (a, rng.randrange(200)) for a in (0, 1)]
    ops += ["run,1000"] + final_queries(ncomp)
    return "cons%d %s" % (i, " ".join(ops)), meta


def gen_consent_restart(rng, i):
    """an ICE restart on one side while READY: media keeps flowing on the old selected pair (RFC 8445 9.1.1.1) and the remote credentials are
    forgotten until the application signals the new ones W seconds later: the old pair must not fall silent for longer than Tr meanwhile"""
    opts = [rng.choice([0, OPT_REGULAR]) | (OPT_CONSENT if rng.random() < 0.75 else 0) for _ in (0, 1)]
    delay = rng.choice([1, 5, 20])
    ops = two_agents(rng, 0, tuple(opts), rng.choice([(1, 0), (0, 1)]), (("10.0.0.1",), ("10.0.1.1",)), 1)
    ops.append("net,0,0,%d,%d,3" % (delay, delay))
    ops += ["gather,0,1", "gather,1,1", "run,10"] + signalling(rng, 1) + ["run,%d" % rng.choice([6000, 9000, 14000])]
    who = rng.randrange(2); w = rng.choice([3000, 8000, 27000, 33000, 58000])
    ops += ["restart,%d" % who, "run,%d" % w, "restart,%d" % (1 - who)] + signalling(rng, 1) + ["run,12000"] + final_queries(1)
    return "cons%d %s" % (i, " ".join(ops)), {"kind": "consent-restart", "ncomp": 1, "delay": delay, "opts": opts, "who": who, "wait": w}


def oracle_restart_silence(evs, meta):
    x = str(meta["who"])
    tr = next((e.t for e in evs if e.kind == "api" and e.f[0] == x and e.f[1] == "restart"), None)
    sel = None; t_new = None
    for e in evs:
        if e.kind == "sig" and e.f[0] == x and e.f[1] == "selected-pair":
            if tr is None or e.t <= tr:
                sel = (e.f[4], e.f[5])
            elif t_new is None:
                t_new = e.t
    if tr is None or sel is None:
        return "restart scenario: agent %s never selected a pair before the restart" % x
    end = t_new if t_new is not None else max(e.t for e in evs if e.kind == "api")
    last = max([e.t for e in evs if e.kind == "pkt" and e.t <= tr and e.f[0] == sel[0] and e.f[1] == sel[1]] or [tr])
    SL = 100
    for e in evs:
        if e.kind == "pkt" and tr < e.t <= end and e.f[0] == sel[0] and e.f[1] == sel[1]:
            if e.t - last > 25000 + SL:
                return "after its ICE restart at t=%d agent %s left the still selected pair %s>%s silent for %d ms (Tr = 25000 ms)" % (tr, x, sel[0], sel[1], e.t - last)
            last = e.t
    if end - last > 25000 + SL:
        return "after its ICE restart at t=%d agent %s left the still selected pair %s>%s silent for %d ms until t=%d (Tr = 25000 ms)" % (tr, x, sel[0], sel[1], end - last, end)
    return None


def oracle_consent_reliable(evs, meta):
    """reliable mode (application data travels through pseudo-TCP): only the send gate is judged - once an agent has announced FAILED for a
    component within 2 s of the peer revoking its consent (i.e. because of the 403 answers), its sends on that component during the next
    8 s must be refused with a permission error.  (Later the transport itself gives up and other errors are legitimate; FAILED of the
    revoking side comes from its pseudo-TCP connection timing out.)"""
    who = meta["who"]; comp = str(meta["comp"]); victim = str(1 - who)
    t_rev = next((e.t for e in evs if e.kind == "api" and e.f[0] == str(who) and e.f[1] == "consent_lost" and e.f[-1] == "=1"), None)
    if t_rev is None:
        return "nice_agent_consent_lost returned FALSE on an agent with consent freshness"
    ready = next((e.t for e in evs if e.kind == "sig" and e.f[0] == victim and e.f[1] == "state" and e.f[3] == comp and e.f[4] == "READY"), None)
    if ready is None or ready > t_rev:
        return None
    failed = next((e.t for e in evs if e.kind == "sig" and e.f[0] == victim and e.f[1] == "state" and e.f[3] == comp and e.f[4] == "FAILED" and e.t >= t_rev), None)
    end_t = max(e.t for e in evs if e.kind == "api")
    if failed is None and end_t < t_rev + 8000:
        return None      # the run ends before a consent check (every 4..6 s) and its 403 answer were due
    if failed is None or failed > t_rev + 8000:
        return "agent %s did not announce FAILED within 8 s of the peer revoking its consent at t=%d (403 answers to its consent checks)" % (victim, t_rev)
    for e in evs:
        if e.kind == "api" and e.f[0] == victim and e.f[1] == "send" and e.f[3] == comp and failed < e.t <= failed + 8000:
            if e.f[-1] != "=-1" or "err=%d" % G_IO_ERROR_PERMISSION_DENIED not in e.f:
                return "agent %s (reliable mode): send at t=%d after consent was lost (FAILED at t=%d) returned %s %s instead of a permission error" % (victim, e.t, failed, e.f[-1], e.f[-2])
    return None


def oracle_consent(evs, meta):
    if meta["kind"] == "consent-restart":
        return oracle_restart_silence(evs, meta)
    delay = meta["delay"]; opts = meta["opts"]; ncomp = meta["ncomp"]
    if opts[0] & OPT_RELIABLE:
        return oracle_consent_reliable(evs, meta)
    SLACK = 60     # ms: Ta pacing of keepalives across components + dispatch
    for x in (0, 1):
        fresh = bool(opts[x] & OPT_CONSENT)
        for c in range(1, ncomp + 1):
            cs = str(c)
            ready_t = None; failed_t = None; sel = None; sel_t = None
            for e in evs:
                if e.kind == "sig" and e.f[0] == str(x) and e.f[1] == "selected-pair" and e.f[2] == "1" and e.f[3] == cs:
                    sel = (e.f[4], e.f[5]); sel_t = e.t
                if e.kind == "sig" and e.f[0] == str(x) and e.f[1] == "state" and e.f[2] == "1" and e.f[3] == cs:
                    if e.f[4] in ("CONNECTED", "READY") and ready_t is None:
                        ready_t = e.t      # a pair is selected from CONNECTED on (a component revived later by the peer's checks would otherwise hide the first FAILED)
                    if e.f[4] == "FAILED" and ready_t is not None and failed_t is None:
                        failed_t = e.t
            if ready_t is None or sel is None:
                if meta["kind"] != "consent-revoke":
                    return "agent %d component %d never became READY on a loss-free network" % (x, c)
                continue
            end_t = max(e.t for e in evs if e.kind == "api")     # the agents are destroyed right after the last API call
            # ---- keepalive silence bound on the selected pair
            period = 6000 if (fresh or opts[x] & 0) else 25000
            last = ready_t
            for e in evs:
                if e.kind == "pkt" and e.t >= ready_t and e.f[0] == sel[0] and e.f[1] == sel[1] and (failed_t is None or e.t <= failed_t):
                    if e.t - last > period + SLACK:
                        return "agent %d left its selected pair %s>%s silent for %d ms (keepalive period %d ms) before t=%d" % (x, sel[0], sel[1], e.t - last, period, e.t)
                    last = e.t
            lim = failed_t if failed_t is not None else end_t
            if lim - last > period + SLACK:
                return "agent %d left its selected pair %s>%s silent for %d ms (keepalive period %d ms) until t=%d" % (x, sel[0], sel[1], lim - last, period, lim)
            if not fresh:
                continue
            # ---- consent expiry: answers delivered to x on the selected pair
            ans = [e.t + delay for e in evs if e.kind == "pkt" and e.f[0] == sel[1] and e.f[1] == sel[0] and e.f[2] in ("ok", "dup")
                   and "stun" in e.f and ("c2" in e.f) and e.t + delay >= ready_t - 2000]
            # 403 answers to requests sent once the pair was selected (answers to transactions of checks that were already
            # completed or cancelled by then are unmatched responses, which the agent rightly ignores)
            req_t = {}
            for e in evs:
                if e.kind == "pkt" and e.f[0] == sel[0] and e.f[1] == sel[1] and "c0" in e.f:
                    req_t.setdefault([w for w in e.f if w.startswith("tid=")][0], e.t)
            got403 = [e.t + delay for e in evs if e.kind == "pkt" and e.f[0] == sel[1] and e.f[1] == sel[0] and e.f[2] in ("ok", "dup") and "err=403" in e.f
                      and req_t.get([w for w in e.f if w.startswith("tid=")][0], -1) > sel_t and e.t + delay < end_t - 5]
            first_ka = next((e.t for e in evs if e.kind == "pkt" and e.t >= ready_t - 2000 and e.f[0] == sel[0] and e.f[1] == sel[1] and "c0" in e.f), None)
            if got403:
                t403 = min(got403)
                if failed_t is None or failed_t > t403 + 5:
                    return "agent %d got an authenticated 403 on its selected pair at t=%d but announced FAILED at %s" % (x, t403, failed_t)
            elif failed_t is not None:
                prior = [a for a in ans if a < failed_t]      # (an answer due in the very millisecond of the expiry races with the timer: either order is legal)
                L = max(prior) if prior else first_ka
                if L is None or not (L + 30000 < failed_t + 1 and failed_t <= L + 30000 + 6000 + SLACK):
                    return "agent %d announced FAILED at t=%d but the last answer on its selected pair arrived at t=%s (consent timeout 30000 ms)" % (x, failed_t, L)
            else:
                pts = sorted(a for a in ans) + [end_t]
                prev = pts[0] if pts else ready_t
                for a in pts[1:]:
                    if a - prev > 30000 + 6000 + SLACK:
                        return "agent %d had no answer on its selected pair between t=%d and t=%d (> consent timeout + one interval) and never announced FAILED" % (x, prev, a)
                    prev = a
            # ---- the send gate
            for e in evs:
                if e.kind == "api" and e.f[0] == str(x) and e.f[1] == "send" and e.f[3] == cs and e.t > ready_t:
                    ok = e.f[-1] != "=-1"
                    if failed_t is not None and e.t > failed_t and (ok or "err=%d" % G_IO_ERROR_PERMISSION_DENIED not in e.f):
                        return "agent %d: send at t=%d after consent was lost (FAILED at t=%d) returned %s %s instead of a permission error" % (x, e.t, failed_t, e.f[-1], e.f[-2])
                    if (failed_t is None or e.t < failed_t) and not ok:
                        return "agent %d: send at t=%d failed (%s %s) while consent was alive" % (x, e.t, e.f[-1], e.f[-2])
    # ---- local revocation: every later check is answered 403
    if meta["kind"] == "consent-revoke":
        who = meta["who"]; comp = meta["comp"]
        t_rev = next((e.t for e in evs if e.kind == "api" and e.f[0] == str(who) and e.f[1] == "consent_lost" and e.f[-1] == "=1"), None)
        if t_rev is None:
            return "nice_agent_consent_lost returned FALSE on an agent with consent freshness"
        mine = set()
        for e in evs:
            if e.kind == "sig" and e.f[0] == str(who) and e.f[1] == "new-candidate" and e.f[3] == str(comp):
                mine.add(e.f[4].split("/")[3])
        reqs = {}
        for e in evs:
            if e.kind == "pkt" and "stun" in e.f and "c0" in e.f and e.f[1] in mine and e.f[2] in ("ok", "dup") and e.t + delay > t_rev + 1:
                reqs[[w for w in e.f if w.startswith("tid=")][0]] = e.t
        answered = {}
        for e in evs:
            if e.kind == "pkt" and "stun" in e.f and e.f[0] in mine and ("c2" in e.f or "c3" in e.f):
                tid = [w for w in e.f if w.startswith("tid=")][0]
                if tid in reqs and e.t >= reqs[tid]:
                    answered.setdefault(tid, []).append("err=403" in e.f)
        for tid, t in reqs.items():
            if tid in answered and not all(answered[tid]):
                return "agent %d answered the check %s (sent t=%d) without 403 after revoking its consent at t=%d" % (who, tid, t, t_rev)
    return None


# ------------------------------------------------------------------ C14: restart
ICE_CHARS = set("ABCDEFGHIJKLMNOPQRSTUVWXYZabcdefghijklmnopqrstuvwxyz0123456789+/")


def gen_restart(rng, i):
    """C14: restart (agent- or stream-wide) at a chosen moment — during gathering/signalling, mid-check, READY, with data flowing — on one
    side first or on both, repeated up to five times, under a C01 network policy; after the last restart the applications exchange the new
    credentials and candidates and the session must converge as in C01; a check authenticated with the pre-restart credentials is injected."""
    ncomp = rng.choice([1, 1, 2])
    opts = tuple(rng.choice([0, OPT_REGULAR]) for _ in (0, 1))
    ctl = rng.choice([(1, 0), (0, 1), (1, 1), (0, 0)])
    na, nb = rng.choice([1, 1, 2]), rng.choice([1, 1, 2])
    ips = (tuple("10.0.0.%d" % (k + 1) for k in range(na)), tuple("10.0.1.%d" % (k + 1) for k in range(nb)))
    ops = two_agents(rng, 0, opts, ctl, ips, ncomp)
    natmap = {}
    if rng.random() < 0.25:
        # one side behind a 1:1 NAT: it learns LOCAL peer-reflexive candidates from the mapped addresses in the answers to its checks (and the
        # other side remote ones) - candidates that exist only as a by-product of the session the restart is supposed to forget
        sd = rng.randrange(2)
        for ip in ips[sd]:
            pub = "198.51.%s.%s" % tuple(ip.split(".")[2:])
            natmap[ip] = pub
            ops.append("nat,%s,%s" % (ip, pub))
    ops.append("net,%s,%s,%d,%d,%d" % (rng.choice([0, 0, 0.1, 0.3]), rng.choice([0, 0.1]), rng.choice([1, 5, 20]), rng.choice([1, 30, 120]), rng.choice([2, 3])))
    if rng.random() < 0.3:
        # a STUN server that never answers keeps every gathering run open for about 2 s: restarts then hit streams that are still gathering
        ops += ["server,10.9.0.1,3478,silent", "stun,0,10.9.0.1,3478", "stun,1,10.9.0.1,3478"]
    ops += ["getcreds,0,1", "getcreds,1,1", "gather,0,1", "gather,1,1"]
    nrest = rng.randrange(1, 6)
    for r in range(nrest):
        # where in the session does this restart hit?
        phase = rng.choice(["gathering", "signalling", "midcheck", "ready", "data"])
        if phase == "gathering":
            ops.append("run,%d" % rng.choice([0, 1]))
        else:
            sig = signalling(rng, ncomp)
            if phase == "signalling":
                sig = sig[:rng.randrange(1, len(sig) + 1)]
                ops += sig
            elif phase == "midcheck":
                ops += sig + ["run,%d" % rng.choice([20, 45, 130, 400])]
            else:
                ops += sig + ["run,%d" % rng.choice([5000, 9000])]
                if phase == "data":
                    ops += ["send,%d,1,%d,%d,%d" % (rng.randrange(2), rng.randrange(1, ncomp + 1), rng.choice([10, 1200]), rng.randrange(200)) for _ in range(3)]
        first = rng.randrange(2)
        both = True    # an ICE restart involves both sides ("on one side first or on both"): the second follows after a random delay
        rop = (lambda a: "restart,%d" % a) if rng.random() < 0.6 else (lambda a: "restart_stream,%d,1" % a)
        ops += [rop(first), "getcreds,%d,1" % first] + ["remotecands,%d,1,%d" % (first, c) for c in range(1, ncomp + 1)]
        if rng.random() < 0.5:
            ops.append("run,%d" % rng.choice([0, 10, 200, 2000]))
        ops.append("oldcheck,%d" % first)
        if both:
            if rng.random() < 0.5:
                ops.append("run,%d" % rng.choice([1, 30, 300, 2500]))
            ops += [rop(1 - first), "getcreds,%d,1" % (1 - first), "oldcheck,%d" % (1 - first)]
        ops += ["run,%d" % rng.choice([1, 40]), "gather,0,1", "gather,1,1", "run,5"]
        if not both:
            # the side that did not restart still holds the old remote credentials: the application re-signals everything anyway
            pass
    ops += signalling(rng, ncomp) + ["run,%d" % rng.choice([8000, 15000]), "digest", "run,6000", "digest"]
    ops += ["send,0,1,1,100,3", "send,1,1,1,100,4", "run,1000"] + final_queries(ncomp)
    return "rst%d %s" % (i, " ".join(ops)), {"kind": "restart", "ncomp": ncomp, "nrest": nrest, "nat": natmap}


def oracle_restart(evs, meta):
    seen = {"0": [], "1": []}
    for k, e in enumerate(evs):
        if e.kind == "api" and e.f[1] == "local_credentials":
            if e.f[3] != "=1":
                return "nice_agent_get_local_credentials failed"
            u, p = e.f[4], e.f[5]
            if not (4 <= len(u) <= 256 and set(u) <= ICE_CHARS):
                return "local ufrag %r is not 4*256ice-char" % u
            if not (22 <= len(p) <= 256 and set(p) <= ICE_CHARS):
                return "local password %r is not 22*256ice-char" % p
            seen[e.f[0]].append((u, p))
        if e.kind == "api" and e.f[1] in ("restart", "restart_stream"):
            if e.f[-1] != "=1":
                return "restart returned FALSE"
            a = e.f[0]
            # the very next getcreds of this agent must differ from all earlier ones
            nxt = next((x for x in evs[k + 1:] if x.kind == "api" and x.f[0] == a and x.f[1] == "local_credentials"), None)
            if nxt is not None:
                cur = (nxt.f[4], nxt.f[5])
                # the 22-character password carries 132 random bits: a repeat is a defect.  The 4-character ufrag carries 24: over the tens of
                # thousands of restarts of a thorough run two equal ufrags WITH different passwords are expected by chance (seen once in 40000
                # scenarios), so a ufrag on its own only counts when it is the one the restart was meant to replace
                if any(cur[1] == o[1] for o in seen[a]) or (seen[a] and cur[0] == seen[a][-1][0]):
                    return "credentials after restart %r repeat an earlier password (or keep the ufrag) of agent %s" % (cur, a)
            # components announced GATHERING again (unless they already were)
            # collected from the signals emitted between this call and the next API call of that agent
            sigs_ = []
            for x in evs[k + 1:]:
                if x.kind == "api":
                    break
                if x.kind == "sig" and x.f[0] == a and x.f[1] == "state":
                    sigs_.append((x.f[3], x.f[4]))
            prev_states = {}
            for x in evs[:k]:
                if x.kind == "sig" and x.f[0] == a and x.f[1] == "state":
                    prev_states[x.f[3]] = x.f[4]
            for c, stt in prev_states.items():
                if stt != "GATHERING" and (c, "GATHERING") not in sigs_:
                    return "restart of agent %s did not announce component %s (was %s) as GATHERING" % (a, c, stt)
        if e.kind == "api" and e.f[1] == "remote_candidates":
            # queried right after the restart of that agent
            prev = next((x for x in reversed(evs[:k]) if x.kind == "api" and x.f[0] == e.f[0] and x.f[1] not in ("local_credentials", "remote_candidates")), None)
            if prev is not None and prev.f[1] in ("restart", "restart_stream") and e.f[-1] != "n=0":
                return "agent %s still holds %s remote candidates right after a restart" % (e.f[0], e.f[-1])
    # checks with pre-restart credentials
    old = {}
    for e in evs:
        if e.kind == "atk" and e.f[0] == "oldcheck":
            old[[w for w in e.f if w.startswith("tid=")][0]] = e
    nat = meta.get("nat") or {}
    for e in evs:
        if e.kind == "pkt" and "stun" in e.f and ("c2" in e.f or "c3" in e.f):
            tid = [w for w in e.f if w.startswith("tid=")][0]
            if tid in old:
                vip, vport = old[tid].f[2].rsplit(":", 1)
                if e.f[0] not in (old[tid].f[2], "%s:%s" % (nat.get(vip, vip), vport)):
                    continue
                if "c2" in e.f:
                    return "a check authenticated with the pre-restart password was answered with a success response (%s)" % tid
                if "err=400" not in e.f and "err=401" not in e.f:
                    # any other answer (487 role conflict ...) is only built once MESSAGE-INTEGRITY has been validated: the old password was accepted
                    return "a check authenticated with the pre-restart password passed authentication: answered %s instead of 401 (%s)" % (
                        [w for w in e.f if w.startswith("err=")][0], tid)
    return None


# ------------------------------------------------------------------ C20: gathering against scripted servers
STUN_MODES = ["ok", "nat", "nat", "natlate", "nattwice", "sameip", "silent", "garbage", "wrongtid", "err400", "err420", "err500", "err300", "loop300", "err401", "err438", "badxor", "badxornat"]
TURN_MODES = ["ok", "ok", "oknat", "oknat", "twice", "silent", "garbage", "wrongtid", "err400", "err403", "err437", "err486", "err500", "err300", "loop300", "turn438", "err401", "err438"]
TURN_OK = ("ok", "oknat", "twice")


def gen_gather(rng, i, mixed=False):
    """mixed=True: a STUN server given by address together with relay servers whose names do not resolve.  The agent resolves both kinds through
    GResolver worker threads, so which answer lands first is decided by the machine, not by the scenario: such runs are judged by the oracle only
    (no run-twice comparison); the other scenarios keep lookups of one kind per run and stay deterministic."""
    nip = rng.choice([1, 1, 2])
    ips = tuple("10.0.%d.%d" % (rng.randrange(0, 4), k + 1) for k in range(nip))
    ncomp = rng.choice([1, 2])
    v6 = rng.random() < 0.25
    if v6:
        # an IPv6 (ULA) address beside, or instead of, the IPv4 ones; the STUN server is then reached over IPv6
        ips = (ips if rng.random() < 0.6 else ()) + tuple("fd00:%d::%d" % (rng.randrange(1, 5), k + 1) for k in range(rng.choice([1, 1, 2])))
    ops = ["seed,%d" % rng.randrange(1, 1 << 30), "agent,0,0,1,0,%s" % ",".join(ips), "stream,0,%d" % ncomp]
    drop = rng.choice([0, 0, 0, 0.2, 0.4])
    ops.append("net,%s,%s,%d,%d,3" % (drop, rng.choice([0, 0.2]), rng.choice([1, 10]), rng.choice([10, 60, 150])))
    if drop:
        ops.append("srvloss,1")
    stun = rng.choice([None, None] + STUN_MODES)
    if mixed:
        stun = rng.choice(["ok", "nat", "nat", "sameip", "silent", "err400", "natlate", "nattwice"])
    if stun and "late" in stun and drop:
        stun = "nat"      # a 1.5 s late answer only beats the 2 s transaction timeout when it answers the first transmission
    servers = []
    stun_ip = "10.9.0.1"
    if stun and v6:
        stun = rng.choice(["sameip", "sameip", "ok", "silent", "garbage", "wrongtid", "err400", "err500"]); stun_ip = "fd00:9::1"
    if stun:
        ops += ["server,%s,3478,%s" % (stun_ip, stun), "stun,0,%s,3478" % stun_ip]
        if stun == "err300":
            ops += ["server,10.9.0.1,%d,%s" % (3479 + k, rng.choice(["err300", "nat"])) for k in range(3)]
        if stun == "loop300":
            ops.append("server,%s,3479,loop300" % stun_ip)       # an endless redirection loop: gathering must complete all the same
    turns = [rng.choice(TURN_MODES) for _ in range(rng.choice([0, 0, 1, 1, 2, 3]))]
    for k, m in enumerate(turns):
        ops.append("server,10.9.%d.1,3478,%s" % (k + 1, m))
        if m == "err300":
            ops += ["server,10.9.%d.1,%d,%s" % (k + 1, 3479 + j, rng.choice(["err300", "ok"])) for j in range(3)]
        if m == "loop300":
            ops.append("server,10.9.%d.1,3479,loop300" % (k + 1))
        for c in range(1, ncomp + 1):
            ops.append("relay,0,1,%d,10.9.%d.1,3478" % (c, k + 1))
    badname = mixed or (rng.random() < 0.12 and not (stun and turns))
    if badname and stun and not mixed:
        badname = False
    if badname:
        # a server given by a host name that does not resolve (this sandbox has no resolver: every lookup fails at once): it contributes nothing and
        # must not keep the gathering from completing (fix 0-resolve: the failed lookup used to skip the completion test).  As the STUN server
        # only when no other STUN server is configured (the property is agent-wide), otherwise as an additional relay server
        if not stun and rng.random() < 0.5:
            ops += ["props,0,stun-server,no-such-host.invalid", "prop,0,stun-server-port,3478"]
        else:
            for c in range(1, ncomp + 1):
                ops.append("relayhost,0,1,%d,no-such-host.invalid,3478" % c)
    ops += ["gather,0,1"] + (["settle,40"] if badname else []) + ["run,%d" % rng.choice([15000, 30000])]
    ops += ["localcands,0,1,%d" % c for c in range(1, ncomp + 1)]
    again = rng.random() < 0.3 and "err300" not in turns and "loop300" not in turns
    turns2 = list(turns)
    if again:
        # relay servers added once gathering is over (e.g. to a component that failed): discovery runs again and completes again
        if rng.random() < 0.4:
            ops.append("restart,0")
        m = rng.choice([x for x in TURN_MODES[:-1] if x != "loop300"])
        k = len(turns)
        if rng.random() < 0.35:
            # the late relay server is given by host name (resolved asynchronously to 127.0.0.1): silent or erroring, so no candidate is expected
            m = rng.choice(["silent", "err400", "err437"])
            ops.append("server,127.0.0.1,3478,%s" % m)
            for c in range(1, ncomp + 1):
                ops.append("relayname,0,1,%d,3478" % c)
        else:
            ops.append("server,10.9.%d.1,3478,%s" % (k + 1, m))
            for c in range(1, ncomp + 1):
                ops.append("relay,0,1,%d,10.9.%d.1,3478" % (c, k + 1))
        turns2.append(m)
        ops += ["run,20000"] + ["localcands,0,1,%d" % c for c in range(1, ncomp + 1)]
    return "gath%d %s" % (i, " ".join(ops)), {"kind": "gather", "ncomp": ncomp, "ips": ips, "stun": stun, "turns": turns, "turns2": turns2, "again": again, "stun_v6": bool(stun and v6)}


def oracle_gather(evs, meta):
    ips, ncomp, stun, turns = meta["ips"], meta["ncomp"], meta["stun"], meta["turns"]
    gathers = [e for e in evs if e.kind == "api" and e.f[1] == "gather"]
    first_done = next((e.t for e in evs if e.kind == "sig" and e.f[1] == "gathering-done"), None)
    if first_done is not None:
        late_relay = [e for e in evs if e.kind == "api" and e.f[1] == "set_relay_info" and e.t > first_done]
        if late_relay:
            gathers.append(late_relay[0])       # one more discovery round, started by the first late set_relay_info
    # relay servers are IPv4: with IPv6 local addresses only, a late set_relay_info has nothing to discover and each call is a
    # (zero-item) gathering run of its own that completes at once
    n_late = len(late_relay) if first_done is not None and late_relay and all(":" in ip for ip in ips) else 1
    dones = [e for e in evs if e.kind == "sig" and e.f[1] == "gathering-done"]
    # completion: exactly once per gather call, in bounded time
    items = len(ips) * ncomp * ((1 if stun else 0) + len(turns))
    # 4xRTO per round of a transaction, pacing, "late" answers, round trips.  Rounds: the request, one authenticated retry after 401, and - with a server
    # that answers 438 (stale nonce) - one more retry with the new nonce, each with its own retransmission budget under loss
    allm = [stun] + list(meta.get("turns2") or turns)
    rounds = 3 if any("438" in (m or "") for m in allm) else 2
    if any("300" in (m or "") for m in allm):
        rounds = 6      # up to NICE_DISCOVERY_MAX_REDIRECTS (5) redirections, each a transaction of its own with its own retransmissions under loss
    bound = 2000 * rounds + 40 * items + 2000 + 6 * 300
    phases = []
    for k, g in enumerate(gathers):
        if g.f[-1] != "=1":
            return "nice_agent_gather_candidates returned FALSE"
        nxt = gathers[k + 1].t if k + 1 < len(gathers) else 10 ** 12
        d = [e for e in dones if g.t <= e.t < nxt or (e.t == g.t)]
        d = [e for e in dones if g.t <= e.t and e.t < nxt]
        want = n_late if (k == len(gathers) - 1 and g.f[1] == "set_relay_info") else 1
        if len(d) != want:
            return "gathering started at t=%d announced completion %d times%s" % (g.t, len(d), "" if want == 1 else " for %d zero-item runs" % want)
        if d[0].t - g.t > bound:
            return "gathering started at t=%d completed only at t=%d (bound %d ms for %d discovery items)" % (g.t, d[0].t, bound, items)
        phases.append((g.t, d[0].t, nxt))
    # the candidates
    for (t0, tdone, tnext) in phases:
        for c in range(1, ncomp + 1):
            lc = [e for e in evs if e.kind == "api" and e.f[1] == "local_candidates" and e.f[3] == str(c) and tdone <= e.t < tnext]
            if not lc:
                continue
            cands = [x.split("/") for x in lc[0].f[5:]]
            got = sorted((int(x[1]), x[3].rsplit(":", 1)[0], x[4].rsplit(":", 1)[0]) for x in cands)     # (type, ip, base ip)
            exp = [(0, ip, ip) for ip in ips]
            if stun and "nat" in stun:
                for ip in ips:
                    a, b, cc, e_ = ip.split(".")
                    exp.append((1, "198.51.%s.%s" % (cc, e_), ip))
            if stun == "sameip":
                for ip in ips:
                    if (":" in ip) == bool(meta.get("stun_v6")):       # the server is asked from the addresses of its own family only
                        exp.append((1, ip, ip))       # mapped address = the host's IP with another port: not redundant, a server reflexive candidate
            for k, m in enumerate(turns if t0 == phases[0][0] else meta["turns2"]):
                if m in TURN_OK and any(":" not in ip for ip in ips):      # the (IPv4) relay servers are asked from IPv4 addresses only
                    exp.append((3, "10.9.%d.1" % (k + 1), None))
                if m == "oknat":
                    # the Allocate success names the client's address as seen through a NAT: a server reflexive candidate the server
                    # confirmed (once per local IPv4 address, however many servers report it)
                    for ip in ips:
                        if ":" not in ip:
                            a, b, cc, e_ = ip.split(".")
                            if (1, "198.51.%s.%s" % (cc, e_), ip) not in exp:
                                exp.append((1, "198.51.%s.%s" % (cc, e_), ip))
            gs = sorted((t, ip) for t, ip, b in got)
            es = sorted((t, ip) for t, ip, b in exp)
            ok_redirect = (stun == "err300") or ("err300" in meta["turns2"])
            if gs != es and not ok_redirect:
                return "component %d: local candidates after completion are %s, the servers confirmed %s (stun=%s turn=%s)" % (c, gs, es, stun, turns)
            if ok_redirect:
                # alternate servers: at least the hosts, at most what a success-mode server could supply
                if [g for g in gs if g[0] == 0] != [e for e in es if e[0] == 0]:
                    return "component %d: host candidates %s, expected %s" % (c, gs, es)
            for t, ip, b in got:
                if t in (1, 3) and b not in ips:
                    return "candidate of type %d with base %s which is not a local address" % (t, b)
            # announced exactly once each
            sig = [e.f[4] for e in evs if e.kind == "sig" and e.f[1] == "new-candidate" and e.f[3] == str(c) and t0 <= e.t <= tdone]
            if len(sig) != len(set(sig)):
                return "a candidate was announced twice: %s" % sig
            allsig = [e.f[4] for e in evs if e.kind == "sig" and e.f[1] == "new-candidate" and e.f[3] == str(c) and e.t <= tdone]
            if len(allsig) != len(set(allsig)):
                return "a candidate was announced twice: %s" % allsig
            sig = allsig
            if sorted(x.split("/")[3] for x in sig) != sorted(x[3] for x in cands):
                return "announced candidates %s differ from the list after completion %s" % (sorted(x.split("/")[3] for x in sig), sorted(x[3] for x in cands))
            late = [e for e in evs if e.kind == "sig" and e.f[1] == "new-candidate" and e.f[3] == str(c) and tdone < e.t < tnext]
            if late:
                return "candidate announced after gathering-done: %s" % " ".join(late[0].f)
    return None


# ------------------------------------------------------------------ C12: random API programs
def gen_api_program(rng, i):
    """C12: up to 60 calls drawn from the public agent API with valid and stale stream/component ids, main-loop iterations and peer
    traffic interleaved at every point, optional TURN/STUN servers; ends with close_async / unref in random order."""
    opts = tuple(rng.choice([0, OPT_REGULAR]) | (OPT_CONSENT if rng.random() < 0.3 else 0) | (OPT_TRICKLE if rng.random() < 0.2 else 0) for _ in (0, 1))
    ncomp = rng.choice([1, 2])
    ips = (("10.0.0.1",), ("10.0.1.1",)) if rng.random() < 0.7 else (("10.0.0.1", "10.0.0.2"), ("10.0.1.1",))
    ops = ["seed,%d" % rng.randrange(1, 1 << 30)]
    compat = rng.choice([0, 0, 0, 0, 1, 2, 3, 4, 5])      # NiceCompatibility: RFC5245, GOOGLE, MSN, WLM2009, OC2007, OC2007R2 (both sides alike)
    for k in (0, 1):
        ops.append("agent,%d,%d,%d,%d,%s" % (k, compat, rng.randrange(2), opts[k], ",".join(ips[k])))
    ops.append("net,%s,%s,1,%d,3" % (rng.choice([0, 0, 0.2]), rng.choice([0, 0.1]), rng.choice([1, 30])))
    servers = rng.random() < 0.4
    if servers:
        ops += ["server,10.9.0.1,3478,%s" % rng.choice(["nat", "silent", "ok"]), "server,10.9.1.1,3478,%s" % rng.choice(["ok", "ok", "silent", "turn438", "err401"])]
        ops += ["stun,%d,10.9.0.1,3478" % rng.randrange(2)]
    sid = lambda: rng.choice([1, 1, 1, 1, 1, 2, 3, 0, 7])
    cid = lambda: rng.choice([1, 1, 1, 2, 2, 3, 0, 9])
    ag = lambda: rng.randrange(2)
    # a plausible prefix most of the time, so that the random calls hit a live session
    if rng.random() < 0.8:
        ops += ["stream,0,%d" % ncomp, "stream,1,%d" % ncomp]
        if servers and rng.random() < 0.7:
            ops += ["relay,%d,1,%d,10.9.1.1,3478" % (ag(), c) for c in range(1, ncomp + 1)]
        if rng.random() < 0.8:
            ops += ["gather,0,1", "gather,1,1", "run,%d" % rng.choice([0, 30, 2500])]
            if rng.random() < 0.8:
                ops += signalling(rng, ncomp) + ["run,%d" % rng.choice([0, 40, 300, 6000])]
    calls = rng.randrange(5, 60)
    for _ in range(calls):
        r = rng.random(); a = ag()
        if r < 0.06: ops.append("stream,%d,%d" % (a, rng.choice([1, 2])))
        elif r < 0.12: ops.append("remove_stream,%d,%d" % (a, sid()))
        elif r < 0.18: ops.append("gather,%d,%d" % (a, sid()))
        elif r < 0.24: ops.append("creds,%d,%d,%d" % (a, 1 - a, rng.choice([1, 1, 2])))
        elif r < 0.32: ops.append("cands,%d,%d,%d,%d" % (a, 1 - a, rng.choice([1, 1, 2]), rng.choice([1, 1, 2])))
        elif r < 0.33: ops += ["sdpgen,%d" % a, "sdpparse,%d,%d" % (1 - a, a)]
        elif r < 0.36: ops += ["sdpgen,%d" % a, "sdpbad,%d,%d,%d" % (1 - a, a, rng.randrange(6))]
        elif r < 0.40 and servers: ops.append("relay,%d,%d,%d,10.9.1.1,3478" % (a, sid(), cid()))
        elif r < 0.45: ops.append(rng.choice(["restart,%d" % a, "restart_stream,%d,%d" % (a, sid())]))
        elif r < 0.55: ops.append("send,%d,%d,%d,%d,%d" % (a, sid(), cid(), rng.choice([1, 100, 1472, 20000]), rng.randrange(200)))
        elif r < 0.59: ops.append(rng.choice(["detach,%d,%d,%d", "attach,%d,%d,%d"]) % (a, sid(), cid()))
        elif r < 0.63: ops.append("set_selected,%d,%d,%d" % (a, sid(), cid()))
        elif r < 0.65: ops.append("setremote,%d,%d,%d" % (a, sid(), cid()))
        elif r < 0.66: ops.append("setalien,%d,%d,%d,%d" % (a, sid(), cid(), rng.randrange(2)))
        elif r < 0.70: ops.append("consent_lost,%d,%d,%d" % (a, sid(), cid()))
        elif r < 0.73: ops.append("forget,%d,%d,%d" % (a, sid(), cid()))
        elif r < 0.76: ops.append(rng.choice(["getcreds,%d,%d" % (a, sid()), "localcands,%d,%d,%d" % (a, sid(), cid()), "remotecands,%d,%d,%d" % (a, sid(), cid()),
                                              "state,%d,%d,%d" % (a, sid(), cid()), "selected,%d,%d,%d" % (a, sid(), cid())]))
        elif r < 0.78: ops.append("peerrfx,%d,%d,%d,%d" % (a, 1 - a, rng.choice([1, 1, 2]), rng.choice([1, 2])))
        elif r < 0.80: ops.append(rng.choice(["tos,%d,%d,46" % (a, sid()), "name,%d,%d,audio" % (a, sid()), "setcreds,%d,%d,abcd,abcdefghijklmnopqrstuvwx" % (a, sid())]))
        elif r < 0.82: ops.append("hole,10.0.%d.1,10.0.%d.1,%s" % (a, 1 - a, rng.choice(["on", "off"])))
        elif r < 0.84: ops.append("sendfail,10.0.%d.1,%s" % (a, rng.choice(["on", "on", "off"])))      # sendto() towards that host fails (route gone, EPERM)
        elif r < 0.87: ops.append("recvfail,10.0.%d.1,%d" % (a, rng.randrange(3)))      # recvmsg() on one of that host's sockets fails once: the agent drops the socket
        else: ops.append("run,%d" % rng.choice([0, 1, 10, 25, 300, 5000, 31000]))
    # the end: idle measurement, then tear-down in a random order
    if rng.random() < 0.15:
        ops.append("sendfail,10.0.%d.1,on" % rng.randrange(2))
    ops += ["run,3000", "tracetimers,1", "run,20000,idle", "tracetimers,0"]
    tail = []
    for k in rng.sample([0, 1], 2):
        if rng.random() < 0.4:
            tail += ["close,%d" % k, "run,%d" % rng.choice([0, 20, 3000])]
        tail.append("unref,%d" % k)
        if rng.random() < 0.5:
            tail.append("run,%d" % rng.choice([0, 50]))
    ops += tail
    return "api%d %s" % (i, " ".join(ops)), {"kind": "api-program", "ncomp": ncomp}


def oracle_api_program(evs, meta, out):
    if " CRASH status=" in out:
        return "the process running the scenario died (%s)" % out[out.index(" CRASH status="):][:40].strip()
    if " LEAK" in out:
        return "memory still allocated (LeakSanitizer) after the last reference was dropped and the main context drained"
    if " SPIN " in out:
        return "the main loop kept dispatching without going back to sleep: " + out[out.index(" SPIN "):][:120]
    for e in evs:
        if e.kind == "end" and e.f and e.f[0] != "live_sockets=0":
            return "sockets still open after the last reference was dropped and the main context drained: %s" % e.f[0]
        if e.kind == "stat" and "idle" in " ".join(e.f):
            pass
    # idle dispatch rate: 20 s window with no API call and no new signalling; the busiest legitimate timers are the conncheck /
    # discovery ticks (Ta = 20 ms, only while checks or gathering are pending) and keepalives
    for e in evs:
        if e.kind == "stat" and e.f[0] == "run" and e.f[1] == "20000":
            d = int(e.f[-1].split("=")[1]); sl = int(e.f[-2].split("=")[1])
            # sleeps = times the main loop went back to sleep and was woken by a timer or packet: two agents, <= 3 Ta-paced timers each, slack for packets.
            # (dispatches per wake-up can reach ~1000 in this simulator, whose clock advances 1 us per dispatch: the keepalive timer is re-armed with
            #  (due - now) / 1000 ms rounded down, so it fires up to 1 ms early and re-arms with 0 ms until the due time — bounded by Properties_C12)
            if sl > 20000 / 20 * 2 * 3 + 4000:
                return "the main loop was woken %d times in 20 s of idle virtual time (timers firing faster than their periods)" % sl
            if d > 1200 * (sl + 1):
                return "%d dispatches for %d wake-ups in 20 s of idle virtual time (zero-interval timer loop)" % (d, sl)
    # per timer: the timers whose configured period is seconds (keepalive Tr = 25 s / consent >= 4 s, TURN refresh, remote consent) may be armed with a
    # short interval now and then (a pair due soon, a retransmission of a keepalive check) and, in this simulator, in zero-interval bursts within the
    # last millisecond before their due time; armed with 1..999 ms more than 5 times a second over 20 idle seconds means the timer runs at Ta
    short = {}
    for e in evs:
        if e.kind == "tmr" and e.f[0] in ("Connectivity_keepalive_timeout", "Pair_remote_consent", "Candidate_TURN_refresh") and 0 < int(e.f[1]) < 1000:
            short[e.f[0]] = short.get(e.f[0], 0) + 1
    for k, v in short.items():
        if v > 100:
            return "timer '%s' (period: seconds) was armed %d times with an interval below 1 s during 20 s without a packet or a call" % (k.replace("_", " "), v)
    return None


# ------------------------------------------------------------------ C02: data integrity (UDP datagrams, reliable byte stream)
def gen_data(rng, i):
    reliable = rng.random() < 0.4
    opt = OPT_RELIABLE if reliable else 0
    opts = (opt | rng.choice([0, OPT_REGULAR]), opt | rng.choice([0, OPT_REGULAR]))
    ncomp = rng.choice([1, 2])
    ops = two_agents(rng, 0, opts, rng.choice([(1, 0), (0, 1)]), (("10.0.0.1",), ("10.0.1.1",)), ncomp)
    drop = rng.choice([0, 0, 0.1, 0.3]) if reliable else rng.choice([0, 0, 0.2])
    ops.append("net,%s,0,%d,%d,3" % (drop, rng.choice([1, 5]), rng.choice([5, 40])))
    # pull mode: the application has no receive callback and polls nice_agent_recv_messages_nonblocking with a scatter layout whose
    # first buffers are tiny (the STUN demultiplexer then has to look at a header spread over several buffers) and whose last
    # buffer takes any datagram whole; chosen before gathering (all the checks go through it) or once connected
    pulls = []
    if rng.random() < 0.5:
        for a in (0, 1):
            for c in range(1, ncomp + 1):
                if rng.random() < 0.7:
                    head = [rng.choice([0, 1, 2, 3, 3, 4, 5, 8, 19, 20, 21, 28]) for _ in range(rng.randrange(0, 4))]
                    pulls.append("pull,%d,1,%d,%s" % (a, c, ".".join(str(x) for x in head + [65536 + rng.choice([0, 1, 1000])])))
    early = rng.random() < 0.6
    if early:
        ops += pulls
    ops += ["gather,0,1", "gather,1,1"] + signalling(rng, ncomp) + ["run,8000"]
    if not early:
        ops += pulls
    sizes = [1, 2, 19, 20, 21, 100, 576, 1200, 1280, 1472, 1500, 4096, 9000, 63487, 63488, 63489, 65507, 65535]
    for _ in range(rng.randrange(3, 25)):
        a = rng.randrange(2); c = rng.randrange(1, ncomp + 1)
        if reliable and rng.random() < 0.25:
            # several messages in one call: each fits the pseudo-TCP send buffer, the batch may not
            ops.append("sendbatch,%d,1,%d,%s,%d" % (a, c, ".".join(str(rng.choice([1, 100, 1200, 20000, 40000, 50000, 65535, rng.randrange(1, 65536)])) for _ in range(rng.randrange(2, 6))), rng.randrange(200)))
        elif reliable:
            ops.append("sendstream,%d,1,%d,%d,%d" % (a, c, rng.choice(sizes + [rng.randrange(1, 200000)]), rng.randrange(250)))
        else:
            n = rng.choice(sizes + [rng.randrange(1, 65536)])
            ops.append("sendv,%d,1,%d,%d,%d,%d%s" % (a, c, n, rng.randrange(250), rng.randrange(1 << 20), ",stunlike" if rng.random() < 0.25 else ""))
        if rng.random() < 0.5:
            ops.append("run,%d" % rng.choice([1, 20, 300]))
    ops.append("run,%d" % (60000 if reliable else 3000))
    for a in (0, 1):
        for c in range(1, ncomp + 1):
            ops.append("streamhash,%d,1,%d" % (a, c))
    ops += final_queries(ncomp)
    return "data%d %s" % (i, " ".join(ops)), {"kind": "data-reliable" if reliable else "data-udp", "ncomp": ncomp, "drop": drop, "pull": len(pulls)}


def oracle_data_full(evs, meta):
    ncomp = meta["ncomp"]
    for e in evs:
        if e.kind == "rxbad":
            return "nice_agent_recv_messages_nonblocking reported a message longer than the buffers it was given: %s" % " ".join(e.f)
        if e.kind == "pullerr":
            return "nice_agent_recv_messages_nonblocking failed on a connected component: %s" % " ".join(e.f)
    if meta["kind"] == "data-udp":
        sent = {}
        for e in evs:
            if e.kind == "api" and e.f[1] == "send" and re.fullmatch(r"=\d+", e.f[-1]):      # (a crash can cut the last line short)
                if int(e.f[-1][1:]) != int(e.f[4]):
                    return "send reported %s bytes for a %s-byte message" % (e.f[-1][1:], e.f[4])
                key = (e.f[0], e.f[3], e.f[4], e.f[5])      # sender, component, length, hash
                sent[key] = sent.get(key, 0) + 1
        got = {}
        for e in evs:
            if e.kind == "rx":
                key = (str(1 - int(e.f[0])), e.f[2], e.f[3], e.f[4])
                got[key] = got.get(key, 0) + 1
                if key not in sent:
                    return "agent %s component %s received a %s-byte message (hash %s) the peer never sent on that component (altered, merged or split)" % (e.f[0], e.f[2], e.f[3], e.f[4])
                if got[key] > sent[key]:
                    return "agent %s received the %s-byte message (hash %s) more often than it was sent (no duplication in this network)" % (e.f[0], e.f[3], e.f[4])
        if meta.get("drop") == 0:
            for key, n in sent.items():
                if got.get(key, 0) != n:
                    return "loss-free network: the %s-byte message (hash %s) sent by agent %s on component %s was delivered %d of %d times" % (key[2], key[3], key[0], key[1], got.get(key, 0), n)
        return None
    # reliable: the byte stream received equals the byte stream accepted by the send API
    st = {}
    for e in evs:
        if e.kind == "strm":
            st[(e.f[0], e.f[2])] = (e.f[3], e.f[4])
    for a in ("0", "1"):
        for c in range(1, ncomp + 1):
            tx = st.get((a, str(c))); rx = st.get((str(1 - int(a)), str(c)))
            if not tx or not rx:
                continue
            txn, txh = map(int, tx[0][3:].split(":")); rxn, rxh = map(int, rx[1][3:].split(":"))
            # rebuild the byte stream the send API accepted and hash the prefix the peer has got so far
            stream = bytearray()
            for e in evs:
                if e.kind == "api" and e.f[0] == a and e.f[1] == "sendstream" and e.f[3] == str(c):
                    n, seed, r = int(e.f[4]), int(e.f[5]), int(e.f[-1][1:])
                    if r > n:
                        return "nice_agent_send accepted %d bytes of a %d-byte buffer" % (r, n)
                    if r > 0:
                        stream += bytes(((seed * 131 + k * 13 + (k >> 7)) & 0xff) for k in range(r))
                if e.kind == "api" and e.f[0] == a and e.f[1] == "sendbatch" and e.f[3] == str(c):
                    lens, seed, r = [int(x) for x in e.f[4].split(".")], int(e.f[5]), int(e.f[-1][1:])
                    if r > len(lens):
                        return "nice_agent_send_messages_nonblocking reported %d of %d messages sent" % (r, len(lens))
                    for j in range(max(r, 0)):       # the messages reported as sent are in the stream, whole
                        stream += bytes((((seed + j) * 131 + k * 13 + (k >> 7)) & 0xff) for k in range(lens[j]))
            if len(stream) != txn:
                return "internal: stream reconstruction mismatch"
            if rxn > txn:
                return "reliable mode: the peer received %d bytes, only %d were sent (agent %s component %d)" % (rxn, txn, a, c)
            h = 0
            for b in stream[:rxn]:
                h = ((h * 16777619) & 0xffffffff) ^ b
            if h != rxh:
                return "reliable mode: the %d bytes received by the peer are not the first %d bytes of the stream agent %s sent on component %d" % (rxn, rxn, a, c)
            if meta.get("drop") == 0 and rxn != txn:
                return "reliable mode, loss-free network: only %d of %d bytes arrived within a minute (agent %s component %d)" % (rxn, txn, a, c)
    return None


# ------------------------------------------------------------------ C15 on live sessions: candidate ranking, pair formula, check-list order
def gen_priorities(rng, i):
    """two agents (reliable or not) with several addresses, optional STUN (behind a 1:1 NAT) and TURN servers; candidates are signalled,
    signalled AGAIN with other priorities (re-offer), roles collide and restarts happen; the check lists are dumped after every step."""
    rel = OPT_RELIABLE if rng.random() < 0.5 else 0
    opts = tuple(rel | rng.choice([0, OPT_REGULAR]) for _ in (0, 1))
    ncomp = rng.choice([1, 2])
    ips = tuple(tuple("10.0.%d.%d" % (a, k + 1) for k in range(rng.choice([1, 2, 3]))) for a in (0, 1))
    ops = two_agents(rng, 0, opts, rng.choice([(1, 0), (0, 1), (1, 1), (0, 0)]), ips, ncomp)
    ops.append("net,%s,0,1,%d,3" % (rng.choice([0, 0, 0.2]), rng.choice([1, 30])))
    for a in (0, 1):
        if rng.random() < 0.6:
            for ip in ips[a]:
                ops.append("nat,%s,198.51.%s" % (ip, ip.split(".", 2)[2]))
            ops += ["server,10.9.%d.1,3478,ok" % a, "stun,%d,10.9.%d.1,3478" % (a, a)]
        if rng.random() < 0.4:
            ops.append("server,10.9.%d.1,3478,ok" % (a + 2))
            ops += ["relay,%d,1,%d,10.9.%d.1,3478" % (a, c, a + 2) for c in range(1, ncomp + 1)]
    ops += ["gather,0,1", "gather,1,1", "run,%d" % rng.choice([500, 3000])]
    ops += ["localcands,%d,1,%d" % (a, c) for a in (0, 1) for c in range(1, ncomp + 1)]
    ops += signalling(rng, ncomp) + ["pairs,0", "pairs,1"]
    for _ in range(rng.randrange(1, 8)):
        r = rng.random(); a = rng.randrange(2)
        if r < 0.45:
            ops.append("recand,%d,%d,1,%d,%d" % (a, 1 - a, rng.randrange(1, ncomp + 1), rng.randrange(1, 1 << 20)))
        elif r < 0.55:
            ops += ["restart,%d" % a, "creds,%d,%d,1" % (a, 1 - a), "restart,%d" % (1 - a), "creds,%d,%d,1" % (1 - a, a)]
            ops += ["cands,0,1,1,%d" % c for c in range(1, ncomp + 1)] + ["cands,1,0,1,%d" % c for c in range(1, ncomp + 1)]
        elif r < 0.65:
            ops.append("propb,%d,controlling-mode,%d" % (a, rng.randrange(2)))
        else:
            ops.append("run,%d" % rng.choice([0, 20, 100, 600, 3000]))
        ops += ["pairs,0", "pairs,1"]
    ops += ["run,3000", "pairs,0", "pairs,1", "digest"] + final_queries(ncomp)
    return "prio%d %s" % (i, " ".join(ops)), {"kind": "priorities", "ncomp": ncomp, "reliable": bool(rel)}


def _pf(G, D):
    return ((1 << 32) * min(G, D) + 2 * max(G, D) + (1 if G > D else 0))


def oracle_priorities(evs, meta=None):
    RANK = {0: 3, 2: 2, 1: 1, 3: 0}        # NiceCandidateType: host 0, srflx 1, prflx 2, relayed 3
    for e in evs:
        cands = []
        if e.kind == "api" and len(e.f) > 4 and e.f[1] == "local_candidates":
            cands = e.f[5:]
        elif e.kind == "sig" and e.f[1] == "new-candidate":
            cands = e.f[4:5]
        parsed = []
        for c in cands:
            w = c.split("/")
            if len(w) < 7:
                continue
            ty, tr, pr = int(w[1]), int(w[2]), int(w[5])
            if not 0 < pr < (1 << 31):
                return "candidate %s has priority %d outside 1..2^31-1" % (c, pr)
            if (pr >> 24) > 126:
                return "candidate %s has type preference %d > 126" % (c, pr >> 24)
            parsed.append((ty, tr, pr, c))
        for (t1, r1, p1, c1) in parsed:
            for (t2, r2, p2, c2) in parsed:
                if r1 == r2 and RANK.get(t1, -1) > RANK.get(t2, -1) and p1 <= p2:
                    return "candidate ranking violated (host > prflx > srflx > relayed of one transport): %s does not outrank %s" % (c1, c2)
        if e.kind == "pl":
            ctl = e.f[1] == "ctl=1"
            import re as _re
            for m in _re.finditer(r"s(\d+)\[([^\]]*)\]", " ".join(e.f)):
                prs = []
                for x in m.group(2).split():
                    comp, lp, rp, pp = map(int, x.split(":"))
                    exp = _pf(lp, rp) if ctl else _pf(rp, lp)
                    if pp != exp:
                        return ("agent %s (%s) stream %s: pair of local priority %d / remote priority %d has pair priority %d, the formula gives %d"
                                % (e.f[0], "controlling" if ctl else "controlled", m.group(1), lp, rp, pp, exp))
                    prs.append(pp)
                if any(prs[k] < prs[k + 1] for k in range(len(prs) - 1)):
                    return "agent %s stream %s: check list not in descending pair-priority order: %s" % (e.f[0], m.group(1), prs)
    return None


# ------------------------------------------------------------------ C19 at agent level: a check on a black-holed pair is sent exactly N times on schedule
def gen_latepeer(rng, i):
    """C11: one agent gives up on its checks early (one or two transmissions) while the path is dead; the path opens before the idle time-out declares
    its component FAILED, and the peer's retransmitted checks then arrive on FAILED pairs of a component that is still CONNECTING."""
    ncomp = rng.choice([1, 1, 2])
    ips = (("10.0.0.1",), tuple("10.0.1.%d" % (k + 1) for k in range(rng.choice([1, 2]))))
    opts = tuple(rng.choice([0, OPT_REGULAR]) for _ in (0, 1))
    ops = two_agents(rng, 0, opts, rng.choice([(1, 0), (0, 1)]), ips, ncomp)
    quick = rng.randrange(2)
    ops.append("prop,%d,stun-max-retransmissions,%d" % (quick, rng.choice([1, 2, 2])))
    for x in ips[0]:
        for y in ips[1]:
            ops += ["hole,%s,%s,on" % (x, y), "hole,%s,%s,on" % (y, x)]
    ops.append("net,0,0,1,%d,3" % rng.choice([1, 10, 30]))
    ops += ["gather,0,1", "gather,1,1", "run,20"] + signalling(rng, ncomp, order=1)
    ops.append("run,%d" % rng.choice([600, 1100, 1600, 2200, 3000, 4500]))
    both = rng.random() < 0.6
    for x in ips[0]:
        for y in ips[1]:
            a, b = (x, y) if quick == 1 else (y, x)        # a -> b: from the patient agent to the one that gave up
            ops.append("hole,%s,%s,off" % (a, b))
            if both:
                ops.append("hole,%s,%s,off" % (b, a))
    ops += ["run,%d" % rng.choice([300, 2000]), "run,15000"] + final_queries(ncomp)
    return "late%d %s" % (i, " ".join(ops)), {"kind": "latepeer", "ncomp": ncomp}


def gen_split_components(rng, i):
    """C01: two components whose only working paths use DIFFERENT address pairs (per-port black holes): component 1 can only connect A1<->B1, component 2
    only A2<->B2 (or the other way round), so the pair nominated for one component has no counterpart with the same addresses in the other.  Either
    nomination mode; loss-free otherwise.  Both components must reach READY on mirrored pairs."""
    ips = (("10.0.0.1", "10.0.0.2"), ("10.0.1.1", "10.0.1.2"))
    opts = tuple(rng.choice([0, OPT_REGULAR, OPT_REGULAR]) for _ in (0, 1))
    ops = two_agents(rng, 0, opts, rng.choice([(1, 0), (0, 1), (1, 1), (0, 0)]), ips, 2)
    ops.append("net,0,0,1,%d,3" % rng.choice([1, 10, 30]))
    swap = rng.randrange(2)
    # UDP host candidates take the ports 40000, 40001, ... in creation order: agent 0 gathers first (component by component, address by address)
    for c in (0, 1):
        keep = (c ^ swap, c ^ swap)
        for a in (0, 1):
            for b in (0, 1):
                if (a, b) != keep:
                    x = "%s:%d" % (ips[0][a], 40000 + c * 2 + a); y = "%s:%d" % (ips[1][b], 40004 + c * 2 + b)
                    ops += ["hole,%s,%s,on" % (x, y), "hole,%s,%s,on" % (y, x)]
    ops += ["gather,0,1", "gather,1,1", "run,20"] + signalling(rng, 2) + ["run,%d" % rng.choice([8000, 15000]), "digest", "run,3000", "digest"] + final_queries(2)
    return "split%d %s" % (i, " ".join(ops)), {"kind": "split-components", "ncomp": 2, "drop": 0}


def gen_blackhole(rng, i):
    """two agents (reliable = pseudo-TCP over UDP candidates, or not), configured N transmissions, every path between them black-holed in
    both directions: each connectivity check must be transmitted exactly N times, RTO, 2 RTO, 4 RTO ... apart, where RTO = max(500 ms, Ta * pairs
    waiting or in progress) as RFC 8445 section 14 and priv_compute_conncheck_timer say (stun-initial-timeout governs discovery, not checks)."""
    rel = OPT_RELIABLE if rng.random() < 0.5 else 0
    opts = tuple(rel | rng.choice([0, OPT_REGULAR]) for _ in (0, 1))
    ncomp = rng.choice([1, 1, 2])
    ips = tuple(tuple("10.0.%d.%d" % (a, k + 1) for k in range(rng.choice([1, 1, 2]))) for a in (0, 1))
    N = rng.choice([1, 2, 3, 3, 4, 5]); T = rng.choice([20, 50, 100, 200, 500])
    ops = two_agents(rng, 0, opts, rng.choice([(1, 0), (0, 1)]), ips, ncomp)
    for a in (0, 1):
        ops += ["prop,%d,stun-max-retransmissions,%d" % (a, N), "prop,%d,stun-initial-timeout,%d" % (a, T)]
    oneway = rng.random() < 0.35
    for x in ips[0]:
        for y in ips[1]:
            # one-way variant: only A's packets are lost; B's checks arrive and trigger checks on pairs whose own check is still in progress
            # (a second transaction on the pair; the older one is dropped at its next expiry, the newest must still get all N transmissions)
            ops += ["hole,%s,%s,on" % (x, y)] + ([] if oneway else ["hole,%s,%s,on" % (y, x)])
    ops.append("net,0,0,1,%d,3" % rng.choice([1, 30]))
    ops += ["gather,0,1", "gather,1,1", "run,20"] + signalling(rng, ncomp, order=1)
    ops += ["run,%d" % (500 * (2 ** N) + 4000), "digest"] + final_queries(ncomp)
    return "hole%d %s" % (i, " ".join(ops)), {"kind": "blackhole", "ncomp": ncomp, "N": N, "T": T, "reliable": bool(rel), "oneway": oneway}


def oracle_blackhole(evs, meta):
    N, T = meta["N"], meta["T"]
    tx = {}
    for e in evs:
        if e.kind == "pkt" and len(e.f) > 5 and e.f[2] == "blackhole" and e.f[3] == "stun" and e.f[4] == "c0" and e.f[5] == "m1":
            tid = [x for x in e.f if x.startswith("tid=")][0]
            tx.setdefault((e.f[0], e.f[1], tid), []).append(e.t)
    if not tx:
        return None
    end = max(e.t for e in evs)
    if meta.get("oneway"):
        # per pair, the transaction started last is the one that must run its full schedule (earlier ones may be superseded by a triggered check)
        last = {}
        for (src, dst, tid), ts in tx.items():
            if (src, dst) not in last or ts[0] > last[(src, dst)][1][0]:
                last[(src, dst)] = (tid, ts)
        for (src, dst, tid), ts in tx.items():
            if len(ts) > N:
                return "connectivity check %s -> %s (%s) was transmitted %d times, stun-max-retransmissions is %d" % (src, dst, tid, len(ts), N)
        for (src, dst), (tid, ts) in last.items():
            if ts[0] + 500 * (2 ** N) + 500 > end:
                continue
            if len(ts) != N:
                return ("the last connectivity check %s -> %s (%s) on a pair whose requests are all lost was transmitted %d times, stun-max-retransmissions is %d"
                        % (src, dst, tid, len(ts), N))
        return None
    for (src, dst, tid), ts in tx.items():
        # a check first sent so late that its schedule does not fit before the scenario ends is not judged
        if ts[0] + 500 * (2 ** N) + 500 > end:
            continue
        if len(ts) != N:
            return ("connectivity check %s -> %s (%s) on a black-holed pair was transmitted %d times, stun-max-retransmissions is %d (agent %s)"
                    % (src, dst, tid, len(ts), N, "reliable, UDP candidates" if meta["reliable"] else "unreliable"))
        for k in range(1, len(ts)):
            want = 500 * (2 ** (k - 1)); gap = ts[k] - ts[k - 1]      # at most 8 pairs: Ta * pairs = 160 ms < 500 ms
            # the retransmission is made by the Ta = 20 ms conncheck tick following the deadline
            if not (want <= gap <= want + 45):
                return "connectivity check %s -> %s: retransmission %d came %d ms after the previous transmission, the schedule says %d ms" % (src, dst, k, gap, want)
    return None
