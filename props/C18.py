"""C18 — SDP and address text forms round-trip and reject garbage safely."""
import ipaddress, json, re, socket, struct
import vlib

META = dict(
    text="Coq theorems (Props/Properties_C18.v) over executable Gallina models of the candidate-line / stream / agent SDP generator and "
         "parser of agent.c and of the NiceAddress text forms (glibc inet_ntop, getaddrinfo(AI_NUMERICHOST)): parse(generate c) "
         "reproduces foundation, component, transport, priority (through the '%d' of a 32-bit value and g_ascii_strtoull's negative "
         "branch), address, port (0 -> 9), type and related address for EVERY candidate; the parser is total and never reaches a NULL "
         "dereference (NULL-tcptype path explicit); from_string(to_string a) = a for all 2^32 IPv4 and all 2^128 IPv6 addresses "
         "(decimal/hex printing-parsing lemmas, '::' compression, embedded IPv4 forms); equality is an equivalence for scope id 0 and "
         "agrees with text equality; private / link-local classification = RFC 1918/3927/4193/loopback ranges for all addresses, "
         "the IPv4 classifiers being REGENERATED from address.c by tools/c2v.py on every run. The models are tied to /repo by "
         "differential execution (extracted OCaml vs the real functions on real NiceAgent objects under ASan/UBSan) plus an "
         "independent implementation-side oracle.",
    note="trusted: Coq kernel, tools/c2v.py + clang AST for the two IPv4 classifiers, extraction (ExtrOcamlBasic only), the hand-written "
         "models (tied by sampling, not proof), libc inet_ntop/getaddrinfo and GLib (modelled from their sources, tied by sampling). "
         "Interface-name scope ids (%eth0) and force_relay are not modelled.",
    technique="Coq proof over executable model + translator-regenerated classifiers + differential correspondence")

FINISH = dict(
    level="proof",
    trusted=["hand-written models coq/Sdp/SdpModel.v (agent.c SDP generator/parser, g_strsplit, g_ascii_strtoull, g_strlcpy, "
             "g_ascii_strcasecmp) and coq/Sdp/AddrModel.v (address.c, glibc 2.36 inet_ntop / __inet_aton_exact / inet_pton6 / numeric "
             "scope id), tied to the code by differential execution against the real functions on real NiceAgent objects",
             "tools/c2v.py + clang 14 JSON AST for ipv4_address_is_private / ipv4_address_is_linklocal (coq/Gen/Address.v regenerated on "
             "every run; the call ntohl(addr) is an input of the generated function, the model supplies bswap32, little-endian host)",
             "extraction with ExtrOcamlBasic only (Z, nat kept inductive); OCaml 4.13.1; gcc 12 + ASan/UBSan; python generators/oracle",
             "libc inet_ntop / getaddrinfo and GLib themselves are outside Coq: the IPv6 printer theorem is about the model of glibc's "
             "inet_ntop6, tied by correspondence on a structured + random sample",
             "not modelled: scope ids given as interface names (host dependent), agent->force_relay, remote peer-reflexive candidates "
             "discovered by connectivity checks (none exist without network), a candidate whose own address is AF_UNSPEC "
             "(_generate_candidate_sdp then prints an uninitialised buffer; outside the property's quantifier)"],
    rule="cases: G (4 types x 4 transports x boundary priorities/components x foundations 0..32 chars x IPv4/IPv6 x ports x base variants), "
         "P (grammar-aware mutations of valid candidate lines), A (dotted-quad boundary forms incl. hex/octal/short forms, IPv6 compressed/"
         "embedded/scope forms, mutations, garbage), T (address -> text -> address, classification), E (equality pairs both directions), "
         "S (agent A generate_local_sdp with 1..4 streams -> agent B parse_remote_sdp), R/Q (mutated SDP blocks); "
         "non-trivial = the implementation produced a candidate/address (not N); distinct by case text",
    assumptions=["strings are NUL-free byte strings (C strings)",
                 "equality theorems are on addresses with scope id 0 (DESIGN.md §6); with different non-zero scope ids nice_address_equal is not transitive",
                 "round trip is stated for foundations without ' ' (and without newline at stream level), ufrag/pwd without newline",
                 "little-endian host (ntohl = byte swap)"])

COQ_TARGETS = ["Props/Properties_C18.vo", "Sdp/Extract_Sdp.vo"]      # what `./check setup` builds for this property
DRIVER = ["zutil_z.ml.in", "sdp_driver.ml"]
SPECS = [("agent/address.c", ["ipv4_address_is_private", "ipv4_address_is_linklocal"], [])]


def pregen():
    return vlib.gen_module("Address", SPECS)


def prebuild():
    m, o = vlib.ocaml_build("sdp_model", "sdp_model", DRIVER)
    return None if m else o


def build_impl():
    objs, l = vlib.repo_objects(vlib.AGENT_SRCS + vlib.SOCKET_SRCS + vlib.STUN_SRCS + ["agent/agent-enum-types.c"])
    if not objs:
        return None, l
    return vlib.link("sdp_h", ["sdp_h.c"], objs)


# ---------------------------------------------------------------------------------------------------
# value helpers (python side; independent of the Coq model)
# ---------------------------------------------------------------------------------------------------
def hx(b):
    if isinstance(b, str):
        try:
            b = b.encode("latin1")
        except UnicodeEncodeError:
            b = b.encode("utf-8")
    return b.hex() if b else "-"


def unhx(h):
    return b"" if h == "-" else bytes.fromhex(h)


def a4(ip, port=0):
    return "4:%d:%d" % (ip, port)


def a6(words, port=0, scope=0):
    return "6:%s:%d:%d" % ("".join("%04x" % w for w in words), port, scope)


def parse_addr(tok):
    """-> None | (4, ip, port, 0) | (6, 128-bit int, port, scope)"""
    if tok == "-":
        return None
    p = tok.split(":")
    if p[0] == "4":
        return (4, int(p[1]), int(p[2]), 0)
    return (6, int(p[1], 16), int(p[2]), int(p[3]))


def py_equal(a, b, with_port=True):
    """nice_address_equal as the header documents it"""
    if a is None or b is None or a[0] != b[0] or a[1] != b[1]:
        return False
    if with_port and a[2] != b[2]:
        return False
    return a[3] == 0 or b[3] == 0 or a[3] == b[3]


def rfc_private(a):
    """RFC 1918 + RFC 3927 + loopback for IPv4; fe80::/10, fc00::/7, ::1 for IPv6 (integer range tests)"""
    if a is None:
        return False
    if a[0] == 4:
        ip = a[1]
        return (0x0a000000 <= ip <= 0x0affffff or 0xac100000 <= ip <= 0xac1fffff or 0xc0a80000 <= ip <= 0xc0a8ffff
                or 0xa9fe0000 <= ip <= 0xa9feffff or 0x7f000000 <= ip <= 0x7fffffff)
    v = a[1]
    return (0xfe80 << 112) <= v < (0xfec0 << 112) or (0xfc00 << 112) <= v < (0xfe00 << 112) or v == 1


def rfc_linklocal(a):
    if a is None:
        return False
    if a[0] == 4:
        return 0xa9fe0000 <= a[1] <= 0xa9feffff
    return (0xfe80 << 112) <= a[1] < (0xfec0 << 112)


def parse_cand(tok):
    ty, tr, pr, co, f, a, b = tok.split("/")
    return dict(type=int(ty), transport=int(tr), prio=int(pr), comp=int(co), found=unhx(f), addr=parse_addr(a), base=parse_addr(b))


def cand_tok(ty, tr, pr, co, f, a, b):
    return "%d/%d/%d/%d/%s/%s/%s" % (ty, tr, pr, co, hx(f), a, b)


def rt_image(c):
    """what the property says a candidate must look like after generate -> parse"""
    def norm(a):
        return (a[0], a[1], a[2] if a[2] else 9, 0)
    base = None
    if c["base"] is not None and not py_equal(c["addr"], c["base"]):
        base = norm(c["base"])
    return dict(type=c["type"], transport=c["transport"], prio=c["prio"], comp=c["comp"], found=c["found"],
                addr=norm(c["addr"]), base=base)


# ---------------------------------------------------------------------------------------------------
# generators (all randomness from chk.rng)
# ---------------------------------------------------------------------------------------------------
PRIOS = [0, 1, 2 ** 31 - 1, 2 ** 31, 2 ** 32 - 1]
COMPS = [1, 2, 255, 256]
PORTS = [0, 1, 9, 65535]
V4S = [0, 1, 0x0a000000, 0x0affffff, 0x09ffffff, 0x0b000000, 0xac100000, 0xac1fffff, 0xac0fffff, 0xac200000, 0xc0a80000, 0xc0a8ffff,
       0xc0a7ffff, 0xc0a90000, 0xa9fe0000, 0xa9feffff, 0xa9fdffff, 0xa9ff0000, 0x7f000000, 0x7f000001, 0x7fffffff, 0x7effffff,
       0x80000000, 0xffffffff, 0x01020304, 0xc0000201, 0x64400001, 0xe0000001, 0x00ffffff, 0x01000000, 0x63636363, 0xc8c8c8c8]
W16 = [0, 0, 0, 0, 1, 0xffff, 0xfe80, 0xfebf, 0xfec0, 0xfe7f, 0xfc00, 0xfdff, 0xfbff, 0xfe00, 0xfd00, 0x0a00, 0x7f00, 0x2001, 0xdb8, 0xa, 0x10, 0x100, 0x1000]
FCHARS = "abcdefghijklmnopqrstuvwxyzABCDEFGHIJKLMNOPQRSTUVWXYZ0123456789+/"


def rnd_v4(rng):
    r = rng.random()
    if r < 0.5:
        return rng.choice(V4S)
    if r < 0.7:
        return (rng.choice(V4S) + rng.choice([-2, -1, 1, 2, 256, 65536])) % 2 ** 32
    if r < 0.85:   # bytes from the decimal boundaries
        bs = [rng.choice([0, 1, 9, 10, 99, 100, 127, 128, 199, 200, 249, 250, 255]) for _ in range(4)]
        return struct.unpack(">I", bytes(bs))[0]
    return rng.randrange(2 ** 32)


def rnd_v6(rng):
    r = rng.random()
    if r < 0.08:
        return rng.choice([[0] * 8, [0] * 7 + [1], [0] * 5 + [0xffff, 0x0102, 0x0304], [0] * 6 + [0x0102, 0x0304], [0] * 6 + [1, 0],
                           [0] * 6 + [0, 2], [0] * 5 + [0xffff, 0, 0], [0] * 4 + [0xffff, 0xffff, 1, 2], [0xfe80] + [0] * 6 + [1],
                           [0xfe80] + [0] * 7, [0] * 7 + [0xffff], [1] + [0] * 7, [0] * 5 + [0xfffe, 1, 2], [0] * 5 + [1, 2, 3]])
    ws = []
    zp = rng.choice([0.1, 0.3, 0.5, 0.7, 0.9])
    for _ in range(8):
        if rng.random() < zp:
            ws.append(0)
        else:
            ws.append(rng.choice(W16[4:] + [rng.randrange(65536), rng.randrange(16), rng.randrange(256), rng.randrange(4096)]))
    if rng.random() < 0.3:
        ws[0] = rng.choice([0xfe80, 0xfebf, 0xfec0, 0xfe7f, 0xfc00, 0xfdff, 0xfbff, 0xfe00, 0xfd12, 0xfe81, 0xfe90, 0xfea0])
    return ws


def rnd_addr(rng, port=None, scope=None):
    if port is None:
        port = rng.choice(PORTS + [rng.randrange(65536)])
    if rng.random() < 0.5:
        return a4(rnd_v4(rng), port)
    if scope is None:
        scope = rng.choice([0, 0, 0, 0, 1, 2, 2 ** 32 - 1])
    return a6(rnd_v6(rng), port, scope)


def rnd_foundation(rng, weird=False):
    n = rng.choice([1, 1, 2, 3, 8, 16, 31, 32, 32, rng.randrange(1, 33)])
    if weird:
        n = rng.choice([0, n])
        alphabet = FCHARS + " \t:=%-\x7f\x80\xff"
    else:
        alphabet = FCHARS + ":=-_.%*'"
    return "".join(rng.choice(alphabet) for _ in range(n))


def rnd_cand(rng, weird=False, comp=None):
    ty = rng.randrange(4)
    tr = rng.randrange(4)
    pr = rng.choice(PRIOS + [rng.randrange(2 ** 32), rng.randrange(1, 2 ** 31)])
    co = comp if comp is not None else rng.choice(COMPS + COMPS + [rng.randrange(1, 257)] + ([0, 257, 2 ** 31, 2 ** 32 - 1] if weird else []))
    f = rnd_foundation(rng, weird)
    addr = rnd_addr(rng)
    r = rng.random()
    if r < 0.3:
        base = "-"
    elif r < 0.4:
        base = addr
    elif r < 0.5:      # same ip, other port
        p = addr.split(":")
        p[2] = str(rng.choice(PORTS + [int(p[2])]))
        base = ":".join(p)
    elif r < 0.58 and addr[0] == "6":   # same ip/port, other scope
        p = addr.split(":")
        p[3] = str(rng.choice([0, 1, 2, 3]))
        base = ":".join(p)
    else:
        base = rnd_addr(rng)
    return cand_tok(ty, tr, pr, co, f, addr, base)


QUADS = ["0", "1", "9", "10", "99", "100", "127", "128", "199", "200", "249", "250", "255", "256", "260", "300", "999", "1000",
         "00", "01", "010", "0377", "0400", "08", "09", "0x10", "0X1f", "0xff", "0x100", "0x", "0xg", "", " 1", "1 ", "+1", "-1", "1e1", "١"]
SINGLES = ["0", "1", "4294967295", "4294967296", "0xffffffff", "0x100000000", "037777777777", "040000000000", "16777215", "16777216",
           "65535", "65536", "18446744073709551615", "18446744073709551616", "99999999999999999999999999", "0x0", "00", "0x00000000000000001"]


def rnd_v6_text(rng):
    ws = rnd_v6(rng)
    try:
        canon = socket.inet_ntop(socket.AF_INET6, struct.pack(">8H", *ws))
    except Exception:
        canon = "::"
    r = rng.random()
    if r < 0.25:
        return canon
    if r < 0.4:
        return ":".join("%x" % w for w in ws)
    if r < 0.5:
        return ":".join(rng.choice(["%04x", "%04X", "%x", "%X", "%05x", "%03x"]) % w for w in ws)
    if r < 0.65:   # compress some run of zeros (not necessarily the canonical one), possibly none / non-zero words
        i = rng.randrange(0, 8)
        j = rng.randrange(i, 9)
        left = ":".join("%x" % w for w in ws[:i])
        right = ":".join("%x" % w for w in ws[j:])
        return left + "::" + right
    if r < 0.8:    # embedded IPv4 tail
        k = rng.choice([6, 6, 6, 5, 4, 7, 0, 2])
        head = ":".join("%x" % w for w in ws[:k])
        quad = ".".join(rng.choice(QUADS[:16] + [str(rng.randrange(256))]) for _ in range(rng.choice([4, 4, 4, 4, 3, 5])))
        form = rng.random()
        if form < 0.4:
            return "::" + quad
        if form < 0.6:
            return "::ffff:" + quad
        if form < 0.8:
            return head + (":" if head else "") + quad
        return head + "::" + quad
    return rng.choice(["::", ":", ":::", "::1", "1::", "1::2::3", "1:2:3:4:5:6:7:8:9", "1:2:3:4:5:6:7", "12345::", "::12345", "::g", "1:2:3:4:5:6:7:8::",
                       "::1:2:3:4:5:6:7:8", "::2:3:4:5:6:7:8", "1:2:3:4:5:6:7::", ":1:2:3:4:5:6:7:8", "1:2:3:4:5:6:7:8:", "1:::8", "::ffff:1.2.3.4", "::1.2.3.4",
                       "1.2.3.4::", "::1.2.3.4:5", "::.1.2.3", "::1.2.3.4.", "1:2:3:4:5:6:7:1.2.3.4", "1:2:3:4:5:6:1.2.3.4", "1:2:3:4:5:1.2.3.4", "::01.2.3.4",
                       "::1.2.3.256", "::1.2.3.0", "::0.0.0.0", "::a.b.c.d", "::1.2.3", "[::1]", "::1 ", " ::1", "0:0:0:0:0:0:0:0", "0::0", "::0:0:0:0:0:0:0",
                       "ffff:ffff:ffff:ffff:ffff:ffff:ffff:ffff", "FFFF::", "::ffff", "fe80::1", "1:2:3:4:5:6:7.8.9.10:1"])


SCOPES = ["%0", "%1", "%2", "%4294967295", "%4294967296", "%", "%%", "%1%2", "%x9q", "%1x", "%-1", "% 1", "%+1", "%01", "%99999999999999999999", "%0x1"]


def mutate_text(rng, s):
    if not s:
        return s
    r = rng.random()
    i = rng.randrange(len(s))
    if r < 0.25:
        return s[:i] + s[i + 1:]
    if r < 0.5:
        return s[:i] + rng.choice("0123456789abcdefx.:% \t-+/ABCDEFgG\x01\x7f\xff") + s[i:]
    if r < 0.7:
        return s[:i] + rng.choice("0123456789abcdefx.:%") + s[i + 1:]
    if r < 0.85:
        return s[:i] + s[i] + s[i:]
    return s + rng.choice([".", ":", " ", "%", "\t", "\r", "0", "::", ".0", "/24"])


def rnd_addr_text(rng):
    r = rng.random()
    if r < 0.22:
        n = rng.choice([4, 4, 4, 4, 4, 3, 2, 1, 5])
        s = ".".join(rng.choice(QUADS) if rng.random() < 0.7 else str(rng.randrange(0, 300)) for _ in range(n))
        return s, "v4-boundary"
    if r < 0.30:
        ip = rnd_v4(rng)
        return socket.inet_ntoa(struct.pack(">I", ip)), "v4-canonical"
    if r < 0.36:
        return rng.choice(SINGLES + [str(rng.randrange(2 ** 33)), hex(rng.randrange(2 ** 33)), oct(rng.randrange(2 ** 33)).replace("o", "")]), "v4-single"
    if r < 0.42:
        parts = [str(rng.choice([0, 1, 255, 256, rng.randrange(256)])) for _ in range(rng.choice([1, 2]))]
        last = rng.choice([0, 1, 255, 256, 65535, 65536, 16777215, 16777216, rng.randrange(2 ** 24)])
        return ".".join(parts + [str(last)]), "v4-short"
    if r < 0.70:
        s = rnd_v6_text(rng)
        return s, "v6-form"
    if r < 0.78:
        return rnd_v6_text(rng) + rng.choice(SCOPES), "v6-scope"
    if r < 0.93:
        base = rnd_v6_text(rng) if rng.random() < 0.5 else socket.inet_ntoa(struct.pack(">I", rnd_v4(rng)))
        for _ in range(rng.choice([1, 1, 2, 3])):
            base = mutate_text(rng, base)
        return base, "mutated"
    n = rng.choice([0, 1, 2, 5, 20, 64, 300])
    return "".join(chr(rng.randrange(1, 256)) for _ in range(n)), "garbage"


def valid_line(rng, strict=False, comps=None):
    """a mostly valid candidate line as token list (after the prefix); strict = always valid"""
    def ip():
        if rng.random() < 0.6:
            return socket.inet_ntoa(struct.pack(">I", rnd_v4(rng)))
        if strict or rng.random() < 0.8:
            return socket.inet_ntop(socket.AF_INET6, struct.pack(">8H", *rnd_v6(rng)))
        return rnd_v6_text(rng)
    if strict or rng.random() < 0.85:
        tr = rng.choice(["UDP", "TCP", "TCP", "udp", "tcp", "Tcp", "TCP-ACT", "TCP-PASS", "TCP-SO", "tcp-act", "tcp-so", "Tcp-Pass"])
    else:
        tr = rng.choice(["TCP-", "SCTP", "UDPX", "ＵＤＰ", "", "UD", "TCP-ACTIVE"])
    toks = [rnd_foundation(rng), str(rng.choice(comps or (COMPS + [rng.randrange(1, 257)]))), tr, str(rng.choice(PRIOS + [rng.randrange(2 ** 32), rng.randrange(1, 2 ** 31)])), ip(),
            str(rng.choice(PORTS + [rng.randrange(65536)])), "typ", rng.choice(["host", "srflx", "prflx", "relay", "relay", "host"])]
    if rng.random() < 0.5:
        toks += ["raddr", ip(), "rport", str(rng.choice(PORTS + [rng.randrange(65536)]))]
    if tr.upper() == "TCP" and (strict or rng.random() < 0.75) or (not strict and rng.random() < 0.1):
        toks += ["tcptype", rng.choice(["active", "passive", "so", "ACTIVE", "So"] + ([] if strict else ["actpass", ""]))]
    if rng.random() < 0.3:
        toks += rng.choice([["generation", "0"], ["ufrag", "abcd"], ["network-id", "1"], ["network-cost", "10"], ["x", "y", "z", "w"]])
    return toks


JUNK = ["", "typ", "raddr", "rport", "tcptype", "host", "-1", "-0", "+5", "0", "99999999999999999999999", "18446744073709551615", "18446744073709551616",
        "-18446744073709551615", "-18446744073709551616", "-9223372036854775808", "4294967296", "4294967295", "-4294967295", "2147483648", "-2147483648",
        "65536", "65535", "-65535", "0x10", "1e3", " ", "\t", "\t5", "\r", "5\r", "a=candidate:", "typ host", "::", "1.2.3.4", "%", "\x7f", "\xff\xfe", "A" * 70, "9" * 40]


def mutate_line(rng, comps=None):
    toks = valid_line(rng, comps=comps)
    prefix = "a=candidate:"
    kind = "line-valid"
    for _ in range(rng.choice([0, 0, 1, 1, 1, 1, 2, 3])):
        kind = "line-mutated"
        r = rng.random()
        i = rng.randrange(len(toks)) if toks else 0
        if r < 0.15 and toks:
            del toks[i]
        elif r < 0.27 and toks:
            toks.insert(i, toks[i])
        elif r < 0.39 and len(toks) > 1:
            j = rng.randrange(len(toks))
            toks[i], toks[j] = toks[j], toks[i]
        elif r < 0.55 and toks:
            toks[i] = rng.choice(JUNK)
        elif r < 0.65:
            toks.insert(i, rng.choice(JUNK))
        elif r < 0.73 and toks:
            toks[i] = mutate_text(rng, toks[i])
        elif r < 0.80 and toks:
            toks = toks[:i]
        elif r < 0.86:
            prefix = rng.choice(["a=candidate", "a=candidate: ", "A=candidate:", "candidate:", "", "a=candidate:a=candidate:", " a=candidate:", "a=candidat:"])
        elif r < 0.93 and toks:
            toks[i] = toks[i].swapcase()
        else:
            toks.append(rng.choice(["", "x", "typ", "tcptype"]))
    sep = " "
    if rng.random() < 0.04:
        sep = rng.choice(["  ", "\t", " \t"])
    return prefix + sep.join(toks), kind


def rnd_cred(rng, maxlen=256):
    n = rng.choice([0, 1, 4, 4, 22, 22, 32, 255, 256, rng.randrange(0, 257)])
    n = min(n, maxlen)
    return "".join(rng.choice(FCHARS + ":= \t") for _ in range(n))


def rnd_streams(rng):
    """S case: distinct transport addresses inside a component so that the receiving side keeps one entry per candidate"""
    n = rng.choice([1, 1, 2, 2, 3, 4])
    names = ["audio", "video", "text", "application", "message", "image", "x", "a b", "m=", "a=candidate:"]
    rng.shuffle(names)
    out = [str(n)]
    spec = []
    for si in range(n):
        name = rng.choice([names[si], names[si], "~"])
        uf, pw = rnd_cred(rng), rnd_cred(rng)
        nc = rng.choice([1, 1, 2, 2, 3])
        out += [hx(name) if name != "~" else "~", hx(uf), hx(pw), str(nc)]
        comps = []
        for ci in range(1, nc + 1):
            k = rng.choice([0, 1, 1, 2, 3, 4])
            cs, seen = [], set()
            for _ in range(k):
                for _try in range(20):
                    t = rnd_cand(rng, comp=ci if rng.random() < 0.98 else rng.choice([1, 2, 3, 4, 256]))
                    c = parse_cand(t)
                    key = (c["addr"][0], c["addr"][1], c["addr"][2] or 9, c["transport"])
                    if key not in seen:
                        seen.add(key)
                        break
                else:
                    continue
                cs.append(t)
            out.append(str(len(cs)))
            out += cs
            comps.append(cs)
        spec.append((name, uf, pw, comps))
    return " ".join(out), spec


def sdp_text(rng):
    """a plausible SDP block (mostly valid, then lightly mutated); returns (text, number of m= lines)"""
    lines = []
    ns = rng.choice([1, 1, 2, 2, 3, 4])
    for s in range(ns):
        if rng.random() < 0.95:
            lines.append("m=%s %d ICE/SDP" % (rng.choice(["audio", "video", "-", ""]), rng.randrange(65536)))
            lines.append("c=IN IP4 1.2.3.4")
            if rng.random() < 0.3:
                lines.append("a=rtcp:%d" % rng.randrange(65536))
        if rng.random() < 0.95:
            lines.append("a=ice-ufrag:" + rnd_cred(rng, 300 if rng.random() < 0.1 else 30))
        if rng.random() < 0.95:
            lines.append("a=ice-pwd:" + rnd_cred(rng, 300 if rng.random() < 0.1 else 30))
        for _ in range(rng.choice([0, 1, 2, 2, 4])):
            if rng.random() < 0.15:
                l, _k = mutate_line(rng, comps=[1, 1, 1, 2])
            else:
                l = "a=candidate:" + " ".join(valid_line(rng, strict=True, comps=[1, 1, 1, 1, 2, 2, 3]))
            lines.append(l)
    for _ in range(rng.choice([0, 0, 0, 1, 1, 2])):
        if not lines:
            break
        r = rng.random()
        i = rng.randrange(len(lines))
        if r < 0.25:
            del lines[i]
        elif r < 0.5:
            lines.insert(i, lines[i])
        elif r < 0.7:
            j = rng.randrange(len(lines))
            lines[i], lines[j] = lines[j], lines[i]
        elif r < 0.85:
            lines.insert(i, rng.choice(["", "a=", "m=", "a=ice-ufrag:", "a=ice-pwd:", "a=candidate:", "a=rtcp:5", "v=0", "a=ice-ufrag", "\r", "a=end-of-candidates"]))
        else:
            lines[i] = mutate_text(rng, lines[i])
    nl = "\r\n" if rng.random() < 0.03 else "\n"
    text = nl.join(lines) + (nl if rng.random() < 0.8 else "")
    return text, sum(1 for l in text.split("\n") if l.startswith("m="))


def gen_cases(rng, n):
    cs = []
    k = [0]

    def add(s, kind):
        cs.append(("c%d %s" % (k[0], s), kind))
        k[0] += 1
    # --- fixed structured part: the property's product space on its boundaries
    for ty in range(4):
        for tr in range(4):
            for pr in PRIOS:
                co = rng.choice(COMPS)
                port = rng.choice(PORTS)
                for v6 in (False, True):
                    addr = a6(rnd_v6(rng), port, 0) if v6 else a4(rnd_v4(rng), port)
                    base = rng.choice(["-", rnd_addr(rng)])
                    add("G " + cand_tok(ty, tr, pr, co, rnd_foundation(rng), addr, base), "cand-structured")
    for co in COMPS:
        for port in PORTS:
            for flen in (1, 2, 31, 32):
                f = "".join(rng.choice(FCHARS) for _ in range(flen))
                add("G " + cand_tok(rng.randrange(4), rng.randrange(4), rng.choice(PRIOS), co, f, rnd_addr(rng, port=port), rnd_addr(rng, port=rng.choice(PORTS))), "cand-structured")
    for ip in V4S:
        add("T " + a4(ip, rng.choice(PORTS)), "addr-v4-boundary")
    for q in QUADS:
        for pos in range(4):
            parts = ["1", "2", "3", "4"]
            parts[pos] = q
            add("A " + hx(".".join(parts)), "v4-boundary")
    for s in SINGLES:
        add("A " + hx(s), "v4-single")
    for zmask in range(256):
        ws = [0 if zmask >> i & 1 else rng.choice([1, 0xffff, 0xab, rng.randrange(1, 65536)]) for i in range(8)]
        add("T " + a6(ws, rng.choice(PORTS), rng.choice([0, 0, 3])), "addr-v6-zero-pattern")
    # --- random part
    for _ in range(n):
        r = rng.random()
        if r < 0.22:
            add("G " + rnd_cand(rng, weird=rng.random() < 0.15), "cand-random")
        elif r < 0.42:
            if rng.random() < 0.25:
                l, kind = "a=candidate:" + " ".join(valid_line(rng, strict=True)), "line-valid"
            else:
                l, kind = mutate_line(rng)
            add("P " + hx(l), kind)
        elif r < 0.62:
            s, kind = rnd_addr_text(rng)
            add("A " + hx(s), kind)
        elif r < 0.72:
            add("T " + rnd_addr(rng), "addr-struct")
        elif r < 0.80:
            a = rnd_addr(rng) if rng.random() < 0.95 else "-"
            q = rng.random()
            if q < 0.3:
                b = a
            elif q < 0.6 and a != "-":
                p = a.split(":")
                i = rng.randrange(1, len(p))
                if i == 1:
                    v = int(p[1], 16 if p[0] == "6" else 10) ^ (1 << rng.randrange(32 if p[0] == "4" else 128))
                    p[1] = ("%032x" % v) if p[0] == "6" else str(v)
                else:
                    p[i] = str(rng.choice([0, 1, 2, int(p[i])]))
                b = ":".join(p)
            else:
                b = rnd_addr(rng) if rng.random() < 0.95 else "-"
            add("E %s %s" % (a, b), "equal-pair")
        elif r < 0.88:
            s, _spec = rnd_streams(rng)
            add("S " + s, "agent-sdp")
        elif r < 0.94:
            add("R " + hx(sdp_text(rng)[0]), "stream-sdp-mutated")
        else:
            text, nm = sdp_text(rng)
            ns = max(1, nm) if rng.random() < 0.9 else rng.choice([1, 2, 3])
            add("Q %d %s %s" % (ns, " ".join(str(rng.choice([4, 3, 3, 2, 1])) for _ in range(ns)), hx(text)), "agent-sdp-mutated")
    return cs


# ---------------------------------------------------------------------------------------------------
# implementation-side oracle: the property itself, on the implementation's output alone
# ---------------------------------------------------------------------------------------------------
def same_cand(got, exp):
    for f in ("type", "transport", "prio", "comp", "found", "addr", "base"):
        if got[f] != exp[f]:
            return "%s is %r, the generated candidate had %r" % (f, got[f], exp[f])
    return None


def in_quantifier(c):
    return (0 <= c["type"] <= 3 and 0 <= c["transport"] <= 3 and 0 <= c["prio"] < 2 ** 32 and 1 <= c["comp"] <= 256
            and 1 <= len(c["found"]) <= 32 and b" " not in c["found"] and b"\n" not in c["found"] and c["addr"] is not None)


def check_addr_text(a, text):
    """text must be a numeric form of address a (independent parser: python's ipaddress / inet_pton)"""
    try:
        if a[0] == 4:
            return struct.unpack(">I", socket.inet_pton(socket.AF_INET, text.decode("ascii")))[0] == a[1]
        return int.from_bytes(socket.inet_pton(socket.AF_INET6, text.decode("ascii")), "big") == a[1]
    except Exception:
        return False


def oracle(line, out):
    try:
        return oracle_(line, out)
    except (IndexError, ValueError) as e:     # truncated line of a crashed harness
        return "malformed implementation output (%s)" % type(e).__name__


def oracle_(line, out):
    t = line.split(" ")
    o = out.split(" ")
    cmd = t[1]
    if cmd == "G":
        c = parse_cand(t[2])
        if not in_quantifier(c):
            return None
        if o[2] == "N":
            return "the generated candidate line does not parse back"
        got = parse_cand(o[3])
        if got["addr"] is None:
            return "parsed candidate without a valid address"
        bad = same_cand(got, rt_image(c))
        if bad:
            return "SDP round trip: " + bad
        text = unhx(o[1])
        if b"\n" in text:
            return "newline inside a candidate line"
    elif cmd == "P":
        if o[1].startswith("C"):
            got = parse_cand(o[2])
            if got["addr"] is None:
                return "parser returned a candidate without a valid address"
            if not (0 <= got["type"] <= 3 and 0 <= got["transport"] <= 3 and len(got["found"]) <= 32):
                return "parser returned a candidate with out-of-range fields"
    elif cmd == "T":
        a = parse_addr(t[2])
        if a is None:
            return None
        text = unhx(o[1])
        back = None if o[4] == "N" else parse_addr(o[4])
        if back != (a[0], a[1], 0, 0):
            return "from_string (to_string a) = %r for a = %r" % (back, a)
        if not check_addr_text(a, text):
            return "to_string gives %r which is not a text form of the address" % text
        if (o[2] == "p1") != rfc_private(a):
            return "is_private = %s but RFC 1918/3927/4193/loopback membership is %s" % (o[2], rfc_private(a))
        if (o[3] == "l1") != rfc_linklocal(a):
            return "is_linklocal = %s but 169.254/16 / fe80::/10 membership is %s" % (o[3], rfc_linklocal(a))
    elif cmd == "A":
        s = unhx(t[2])
        strict4 = re.fullmatch(rb"(0|[1-9][0-9]{0,2})\.(0|[1-9][0-9]{0,2})\.(0|[1-9][0-9]{0,2})\.(0|[1-9][0-9]{0,2})", s)
        if strict4 and all(int(x) <= 255 for x in strict4.groups()):
            exp = struct.unpack(">I", bytes(int(x) for x in strict4.groups()))[0]
            if o[1] == "N" or parse_addr(o[1]) != (4, exp, 0, 0):
                return "canonical dotted quad not accepted as %d: %s" % (exp, o[1])
        if o[1] != "N":
            a = parse_addr(o[1])
            if a is None:
                return "from_string succeeded with an invalid address"
            if a[2] != 0:
                return "from_string produced a port"
            if not check_addr_text(a, unhx(o[2])):
                return "to_string of the parsed address is not a text form of it"
            if (o[3] == "p1") != rfc_private(a):
                return "is_private = %s but range membership is %s for %r" % (o[3], rfc_private(a), a)
            if (o[4] == "l1") != rfc_linklocal(a):
                return "is_linklocal = %s but range membership is %s for %r" % (o[4], rfc_linklocal(a), a)
            if b"%" not in s:
                try:
                    ref = ipaddress.ip_address(s.decode("ascii"))
                    if int(ref) != a[1] or ref.version != a[0]:
                        return "accepted text parsed differently from the reference parser"
                except ValueError:
                    pass    # libc accepts more forms (hex/octal/short forms) than the reference
        elif b"%" not in s:
            try:
                ref = ipaddress.ip_address(s.decode("ascii"))
                return "valid address text %r rejected" % s
            except ValueError:
                pass
    elif cmd == "E":
        a, b = parse_addr(t[2]), parse_addr(t[3])
        eq, eqnp, teq, eqr, eqnpr = (x == "1" for x in o[1:6])
        if a is not None and b is not None and a[3] == 0 and b[3] == 0:
            if eq != (a[:3] == b[:3]):
                return "nice_address_equal = %s for %r, %r" % (eq, a, b)
            if eqnp != (a[:2] == b[:2]):
                return "nice_address_equal_no_port = %s for %r, %r" % (eqnp, a, b)
            if eq != eqr or eqnp != eqnpr:
                return "equality not symmetric"
            if eqnp != teq:
                return "equality (without port) %s but text equality %s" % (eqnp, teq)
        if a is not None and a == b and not eq:
            return "equality not reflexive"
    elif cmd == "S":
        return oracle_S(t, o)
    elif cmd in ("R", "Q"):
        for x in o:
            if x.count("/") == 6:
                c = parse_cand(x)
                if c["addr"] is None:
                    return "a candidate without valid address came out of the SDP parser"
    return None


def oracle_S(t, o):
    n = int(t[2])
    i = 3
    streams = []
    for _ in range(n):
        name, uf, pw, nc = t[i], unhx(t[i + 1]), unhx(t[i + 2]), int(t[i + 3])
        i += 4
        comps = []
        for _c in range(nc):
            k = int(t[i]); i += 1
            comps.append([parse_cand(x) for x in t[i:i + k]]); i += k
        streams.append((name, uf, pw, comps))
    # the property's quantifier: named or unnamed streams, credentials / foundations without newline or space
    for name, uf, pw, comps in streams:
        if b"\n" in uf or b"\n" in pw or (name != "~" and b"\n" in unhx(name)):
            return None
        for ci, cs in enumerate(comps):
            for c in cs:
                if not in_quantifier(c) or c["comp"] != ci + 1:
                    return None
    allc = [c for _, _, _, comps in streams for cs in comps for c in cs]
    exp_ret = sum(1 for c in allc if c["type"] != 2 and c["prio"] != 0)
    if o[2] != "ret=%d" % exp_ret:
        return "parse_remote_sdp returned %s, %d candidates should have been accepted" % (o[2], exp_ret)
    blocks = " ".join(o[3:]).split("| ")[1:]
    if len(blocks) != n:
        return "wrong number of streams in the result"
    for (name, uf, pw, comps), blk in zip(streams, blocks):
        bt = blk.split()
        if unhx(bt[0]) != uf or unhx(bt[1]) != pw:
            return "credentials not reproduced: %r/%r instead of %r/%r" % (unhx(bt[0]), unhx(bt[1]), uf, pw)
        j = 2
        for cs in comps:
            k = int(bt[j][1:]); j += 1
            got = [parse_cand(x) for x in bt[j:j + k]]; j += k
            exp = [rt_image(c) for c in cs if c["type"] != 2 and c["prio"] != 0]
            if len(got) != len(exp):
                return "component received %d candidates, %d were sent" % (len(got), len(exp))
            for g, e in zip(got, exp):
                bad = same_cand(g, e)
                if bad:
                    return "agent SDP round trip: " + bad
    return None


def nontrivial(line, out):
    if out is None:
        return False
    o = out.split(" ")
    cmd = line.split(" ")[1]
    if cmd in ("A", "P"):
        return len(o) > 1 and o[1] != "N"
    if cmd == "G":
        return len(o) > 2 and o[2] != "N"
    return True


# ---------------------------------------------------------------------------------------------------
def run(chk):
    info, err = pregen()
    if info is None:
        chk.broken_obligation("translator", err)
    else:
        chk.cov["translated_functions"] = sorted(info)
    chk.prove(["Props/Properties_C18.v"], COQ_TARGETS[1:])
    model, o = vlib.ocaml_build("sdp_model", "sdp_model", DRIVER)
    if not model:
        chk.broken_obligation("extract-build", o[-2000:])
    impl, o = build_impl()
    if not impl:
        chk.broken_obligation("impl-build", o[-3000:])
    if impl:
        # thorough: batches keep the memory bounded (each batch repeats the ~700 structured boundary cases)
        batches = [12000] if chk.tier == "quick" else [300000] * 10
        for b, n in enumerate(batches):
            cases = gen_cases(chk.rng, n)
            what = "sdp-address" if len(batches) == 1 else "sdp-address-%d" % b
            if model:
                vlib.correspond(chk, cases, model, impl, oracle=oracle, what=what, nontrivial=nontrivial)
            else:
                vlib.correspond(chk, cases, impl, impl, oracle=oracle, what=what + "-oracle-only", nontrivial=nontrivial)
            if chk.violations:
                break
    return chk.finish(**FINISH)


def replay(chk, path):
    r = json.load(open(path))["replay"]
    impl, o = build_impl()
    model, _ = vlib.ocaml_build("sdp_model", "sdp_model", DRIVER)
    if "case" not in r:
        print(json.dumps(r, indent=1)[:3000])
        return 0
    rc, so, se = vlib.run_lines(impl, r["case"] + "\n")
    print("impl :", so.strip(), ("\n" + se[-3000:]) if rc else "")
    if model:
        rc2, mo, _ = vlib.run_lines(model, r["case"] + "\n")
        print("model:", mo.strip())
    if rc == 0 and so.strip():
        print("oracle:", oracle(r["case"], so.strip()))
    return 0
