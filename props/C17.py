"""C17 — Stream-based socket layers are independent of how TCP segments the bytes."""
import json, os
import vlib

COQ_TARGETS = ["Props/Properties_C17.vo", "Stream/Extract_Stream.vo"]      # what `./check setup` builds for this property (the extraction feeds the OCaml driver)
META = dict(
    text="Coq theorems (Props/Properties_C17.v) over executable models of the HTTP-CONNECT, SOCKS5, pseudo-SSL and "
         "TURN-over-TCP receive paths and of the TCP send queue (tcp-bsd.c + socket.c): for ALL streams and ALL chunkings "
         "(induction over the chunk list from a one-step resumption lemma; for HTTP by refinement to a chunking-free "
         "specification of the reply parser) upward messages, handshake outcome and downward bytes do not depend on "
         "segmentation; tunnels are transparent; for ALL kernel accept patterns kernel bytes ++ queued bytes = concatenation "
         "of the accepted frames; no model ever indexes outside a buffer, fails an assertion or spins (checked reads/writes, "
         "g_assert = Fault).  The models follow the repaired code (fix commits 509c336 4b5b4ef a4cf846 bc18d98 b519949 9934485 "
         "fcd7bcb + the http.c fix that hands out what is left in the ring buffer before reading the base socket again); ALL "
         "statements are unconditional: HTTP segmentation independence holds for every stream, every chunking and every sequence "
         "of caller receive-buffer sizes >= 1.  Each model is tied to /repo's working tree on every run by differential execution "
         "against the REAL layer code over a scripted base socket / interposed kernel write, plus an implementation-side oracle "
         "that states the property without the model (a regression of any of the eight fixes is reported as VIOLATION with the "
         "failing input).",
    note="trusted: Coq kernel, extraction (ExtrOcamlBasic only), the hand-written models (tied by sampling, not proof), the "
         "harness (scripted base socket semantics, painting of uninitialised memory, interposed g_socket_send_message). The "
         "RFC 4571 reassembly inside agent.c is proved under C02 (coq/Data); this check adds the wake-flag theorems over that model (Data/WakeProofs.v, "
         "statement shape of agent_consume_next_rfc4571_chunk checked on every run) and reads ICE-TCP frames over a real loopback TCP connection through "
         "the component's pollable input stream (harness/data_h.c op I), judging delivery without the model.",
    technique="Coq proof over executable models + extracted-model/implementation differential correspondence")

FINISH = dict(
    level="proof",
    trusted=["hand-written models coq/Stream/*Model.v of socket/{http,socks5,pseudossl,udp-turn-over-tcp,tcp-bsd,socket}.c, tied to the "
             "code by differential execution (extracted OCaml via ExtrOcamlBasic only; Z kept inductive) on every run",
             "harness/scripted_sock.h: a scripted base NiceSocket (delivers min(requested, pending) bytes per read, accepts every send); "
             "readable event = append chunk, call recv_messages(1 message, one 70000-byte buffer) while bytes are pending, stop after an "
             "error return / Fault / a call that consumed nothing; for HTTP: one buffer of the size set by the case (c:<cap>, a heap "
             "block of exactly that size), called until it would block (also after a call that delivered, although the base socket is "
             "empty by then)",
             "uninitialised heap and stack bytes are painted with a per-case byte G (g_malloc/g_realloc interposed, stack painted before "
             "each call) and the model takes the same G; the kernel of tcp-bsd.c is an interposed g_socket_send_message driven by a script",
             "OCaml 4.13.1, gcc 12 + ASan/UBSan, the python generators/oracles in props/C17.py",
             "not modelled: the text of the HTTP CONNECT request, from-addresses, GSource plumbing of tcp-bsd.c, messages with "
             "n_buffers = -1, callers passing more than one NiceInputMessage; ICE-TCP RFC 4571 framing of agent.c (C02)"],
    rule="a layer case carries the chunked delivery and, after `|`, the one-chunk delivery of the same stream on a fresh instance; "
         "generators: every segmentation of short streams, random segmentations of long streams, frame headers up to the maximum "
         "length, proxy-reply grammar (success, every error code, headers, Content-Length bodies, garbage), caller buffers of 1/2/4/16 bytes with payload following the proxy reply in the same "
         "read, kernel accept counts "
         "0..len per write with would-block / hard errors, multi-buffer messages; non-trivial = the layer delivered or sent "
         "something or a partial write happened; distinct by case text",
    assumptions=["the base socket returns min(requested, available) bytes per read and never fails (scripted socket)",
                 "callers pass one NiceInputMessage per recv_messages call (what agent.c does)",
                 "C17_write_atomic quantifies over accept counts and EWOULDBLOCK; hard kernel errors drop queued frames (noted)",
                 "HTTP: within one readable event the caller calls recv_messages until it would block (what component_io_cb does); "
                 "the caller's buffer holds at least 1 byte"])

DRIVER = ["zutil_z.ml.in", "zutil_big.ml.in", "stream_driver.ml"]
hx = lambda b: bytes(b).hex() if len(b) else "-"


def unhex(s):
    return b"" if s == "-" else bytes.fromhex(s)


def prebuild():
    m, o = vlib.ocaml_build("stream_model", "stream_model", DRIVER)
    return None if m else o


def build_impl():
    srcs = [s for s in vlib.AGENT_SRCS + vlib.SOCKET_SRCS + vlib.STUN_SRCS + ["agent/agent-enum-types.c"]
            if s != "socket/udp-turn-over-tcp.c"]     # included by the harness (needs the layout of TurnTcpPriv)
    objs, l = vlib.repo_objects(srcs)
    if not objs:
        return None, l
    return vlib.link("stream_h", ["stream_h.c"], objs)


# ------------------------------------------------------------------------------------------------------
# helpers for generators
# ------------------------------------------------------------------------------------------------------
def all_segmentations(n):
    """every way to cut n bytes into consecutive non-empty chunks, as lists of cut positions"""
    for mask in range(1 << max(n - 1, 0)):
        yield [i + 1 for i in range(n - 1) if mask >> i & 1]


def cut(stream, cuts):
    out, p = [], 0
    for c in list(cuts) + [len(stream)]:
        if c > p:
            out.append(stream[p:c]); p = c
    return out


def rand_cuts(rng, n, style=None):
    if n <= 1:
        return []
    style = style or rng.choice(["few", "many", "tiny", "one"])
    if style == "one":
        return []
    if style == "tiny":
        k = min(n - 1, rng.randrange(1, 40))
        base = rng.randrange(0, n)
        return sorted({min(n - 1, max(1, base + rng.randrange(-30, 30))) for _ in range(k)})
    k = rng.randrange(1, 6) if style == "few" else rng.randrange(min(5, n - 1), min(n, 400) + 1)
    return sorted({rng.randrange(1, n) for _ in range(min(k, n - 1))})


def feeds(chunks):
    return " ".join("f:" + hx(c) for c in chunks)


def pair_case(prefix, stream, cuts, extra_ops=""):
    """chunked delivery | one-chunk delivery of the same stream"""
    a = feeds(cut(stream, cuts))
    return "%s %s%s | %s%s" % (prefix, a, extra_ops, feeds([stream]) if stream else "", extra_ops)


class Counter:
    def __init__(self):
        self.n, self.cases = 0, []

    def add(self, body, kind):
        self.cases.append(("c%d %s" % (self.n, body), kind)); self.n += 1


# ------------------------------------------------------------------------------------------------------
# (5) TCP send queue
# ------------------------------------------------------------------------------------------------------
def mkbufs(rng, sizes, ctr):
    out = []
    for s in sizes:
        out.append(bytes((ctr[0] + i) % 251 for i in range(s))); ctr[0] += s
    return out


def gen_queue(rng, C, tier):
    # every accept count for the direct write and for the first flush, several buffer layouts
    layouts = [[1], [5], [2, 3], [2, 10, 10], [0, 4, 0, 3], [3, 1, 1, 1], [4, 4], [1, 0, 6, 2], [10, 1], [7, 2, 2]]
    for lay in layouts:
        tot = sum(lay)
        for a in range(tot + 1):
            for b in ([0, 1, tot] if tier == "quick" else range(tot + 1)):
                ctr = [1]
                m1, m2 = mkbufs(rng, lay, ctr), mkbufs(rng, [3, 2], ctr)
                ops = "r:%s c r:%s w c w z c" % (",".join(hx(x) for x in m1), ",".join(hx(x) for x in m2))
                C.add("Q %d a%d,a%d,w,a1 %s" % (rng.choice([0xaa, 0, 0x55]), a, b, ops), "queue-all-accept-counts")
    n = 400 if tier == "quick" else 20000
    for _ in range(n):
        ctr = [rng.randrange(1, 200)]
        hard = rng.random() < 0.15
        ops, script = [], []
        for _j in range(rng.randrange(1, 9)):
            r = rng.random()
            if r < 0.6:
                nb = rng.choice([1, 1, 2, 3, 3, 4, 6])
                big = tier != "quick" and rng.random() < 0.01
                sizes = [rng.choice([0, 1, 2, 3, 5, 8, 13, 40] + ([30000] if big else [])) for _ in range(nb)]
                bufs = mkbufs(rng, sizes, ctr)
                ops.append(("r:" if rng.random() < 0.7 else "s:") + ",".join(hx(x) for x in bufs))
            elif r < 0.85:
                ops.append("w")
            else:
                ops.append("c")
        for _j in range(rng.randrange(0, 12)):
            r = rng.random()
            if r < 0.6:
                script.append("a%d" % rng.choice([0, 1, 2, 3, 4, 5, 7, 9, 12, 20, 100000]))
            elif r < 0.85 or not hard:
                script.append("w")
            else:
                script.append(rng.choice(["f", "x"]))
        ops += ["z", "c"]
        C.add("Q %d %s %s" % (rng.choice([0xaa, 0, 0xff]), ",".join(script) or "-", " ".join(ops)),
              "queue-hard-errors" if any(s in ("f", "x") for s in script) else "queue-random")
    # regression input of fix 509c336 (partial write ending deep inside a middle buffer)
    C.add("Q 170 a9 r:0001,02030405060708090a0b,0c0d0e0f101112131415 c z c", "queue-offset-regression")


def oracle_queue(t, o):
    ops = t[4:]
    toks = o[1:]
    if "FAULT" in toks:
        return "send queue aborted (failed assertion)"
    # attribute output tokens to ops
    k, per = 0, []
    for op in ops:
        mine = []
        if op[0] in "sr":
            if k >= len(toks) or toks[k] != "+":
                return "output does not follow the ops (send start)"
            k += 1
            while k < len(toks) and toks[k][0] == "K":
                mine.append(toks[k]); k += 1
            if k >= len(toks) or toks[k][0] != "S":
                return "output does not follow the ops (send)"
            mine.append(toks[k]); k += 1
        elif op[0] in "wz":
            if k >= len(toks) or toks[k] != op[0].upper():
                return "output does not follow the ops (%s)" % op
            k += 1
            while k < len(toks) and toks[k][0] == "K":
                mine.append(toks[k]); k += 1
        elif op[0] == "c":
            mine.append(toks[k]); k += 1
        per.append(mine)
    hard = any(x in ("Kf", "Kx") for x in toks)
    frames, kernel = b"", b""
    for op, mine in zip(ops, per):
        if op[0] in "sr":
            bufs = [unhex(x) for x in op[2:].split(",")]
            flat = b"".join(bufs)
            ret = int(mine[-1][1:])
            if ret not in (-1, 0, 1):
                return "send returned %d" % ret
            direct = [x for x in mine[:-1] if x not in ("Kw", "Kf", "Kx")]
            if ret == 1:
                frames += flat
            elif direct and len(unhex(direct[0][1:])) > 0:
                return "a refused frame (ret %d) left %d bytes in the kernel" % (ret, len(unhex(direct[0][1:])))
        for x in mine:
            if x[0] == "K" and x not in ("Kw", "Kf", "Kx"):
                kernel += unhex(x[1:])
                if not hard and frames[:len(kernel)] != kernel:
                    return "kernel byte stream is not a prefix of the concatenation of the accepted frames (at byte %d)" % next(
                            i for i in range(len(kernel)) if i >= len(frames) or kernel[i] != frames[i])
    if not hard and ops and ops[-2:] == ["z", "c"]:
        if kernel != frames:
            return "after draining the queue the kernel got %d bytes, accepted frames total %d" % (len(kernel), len(frames))
        if toks[-1] != "C1":
            return "queue not empty after drain"
    return None


# ------------------------------------------------------------------------------------------------------
# (4) TURN over TCP
# ------------------------------------------------------------------------------------------------------
DRAFT9, GOOGLE, MSN, OC2007, RFC5766 = 0, 1, 2, 3, 4


def turn_frame_in(rng, compat, n, payload=None):
    """a well-formed incoming frame with n payload bytes"""
    p = payload if payload is not None else bytes(rng.randrange(256) for _ in range(n))
    if compat in (DRAFT9, RFC5766):
        if rng.random() < 0.5:
            f = bytes([rng.randrange(0, 0x40), rng.randrange(256)]) + len(p).to_bytes(2, "big") + bytes(rng.randrange(256) for _ in range(16)) + p
        else:
            f = bytes([rng.randrange(0x40, 0x80), rng.randrange(256)]) + len(p).to_bytes(2, "big") + p
        return f + bytes(rng.randrange(256) for _ in range(-len(f) % 4))
    if compat == GOOGLE:
        return len(p).to_bytes(2, "big") + p
    return bytes([rng.choice([2, 3]), 0]) + len(p).to_bytes(2, "big") + p


def turn_ref(compat, s):
    """reference reassembly (written from the framing rules, not from the model): messages, status"""
    msgs, i = [], 0
    if compat == MSN:
        return msgs, ("err" if s else "ok")
    while i < len(s):
        hl = 2 if compat == GOOGLE else 4
        if len(s) - i < hl:
            break
        if compat in (DRAFT9, RFC5766):
            magic, plen = int.from_bytes(s[i:i + 2], "big"), int.from_bytes(s[i + 2:i + 4], "big")
            tot = (20 if magic < 0x4000 else 4) + plen
            tot += -tot % 4
            start = i
        elif compat == GOOGLE:
            tot, start = int.from_bytes(s[i:i + 2], "big"), i + 2
        else:
            if s[i] not in (2, 3):
                return msgs, "err"
            tot, start = int.from_bytes(s[i + 2:i + 4], "big") + 2, i + 2
        if len(s) - start < tot:
            break
        if tot > 0:
            msgs.append(s[start:start + tot])
        i = start + tot
    return msgs, "ok"


def gen_turn(rng, C, tier):
    nseg = 11 if tier == "quick" else 16
    for compat in (RFC5766, DRAFT9, GOOGLE, OC2007):
        # every segmentation of short streams (frames + a dangling start)
        for _ in range(2 if tier == "quick" else 3):
            s = b""
            while len(s) < nseg - 5:
                s += turn_frame_in(rng, compat, rng.choice([0, 1, 2, 3]))
            s = (s + turn_frame_in(rng, compat, 6))[:nseg + 1]
            for cuts in all_segmentations(len(s)):
                C.add(pair_case("T %d" % compat, s, cuts), "turn-all-segmentations")
        # random long streams
        for _ in range(30 if tier == "quick" else 300):
            s, target = b"", rng.choice([200, 3000, 20000] if tier == "quick" else [500, 20000, 100000, 204800])
            while len(s) < target:
                n = rng.choice([0, 1, 2, 3, 4, 7, 20, 100, 1200, 1500] + ([9000, 40000, 65000] if rng.random() < 0.1 else []))
                s += turn_frame_in(rng, compat, min(n, 65535 - 20))
            s = s[:target] if rng.random() < 0.5 else s
            C.add(pair_case("T %d" % compat, s, rand_cuts(rng, len(s))), "turn-random-segmentation")
        # headers announcing the maximum length
        for plen in ((0xffff, 0xfffd, 0xffec, 0xffe8) if tier == "quick" else (0xffff, 0xfffe, 0xfffd, 0xfffc, 0xffec, 0xffeb, 0xffe8)):
            for magic in ((0x0001, 0x4000) if compat in (DRAFT9, RFC5766) else (0x0200,)):
                hdr = (plen.to_bytes(2, "big") if compat == GOOGLE else magic.to_bytes(2, "big") + plen.to_bytes(2, "big"))
                for total in ((plen - 40, 65536, 65560) if tier == "quick" else (plen - 40, 65530, 65536, 65537, 65560, 66000)):
                    s = hdr + bytes((7 * i + 1) % 256 for i in range(max(0, total)))
                    C.add(pair_case("T %d" % compat, s, rand_cuts(rng, len(s), "few")), "turn-max-length-header")
        # garbage
        for _ in range(20 if tier == "quick" else 400):
            s = bytes(rng.choice([0, 1, 2, 3, 0x40, 0xff, rng.randrange(256)]) for _ in range(rng.randrange(1, 60)))
            C.add(pair_case("T %d" % compat, s, rand_cuts(rng, len(s))), "turn-garbage")
    for _ in range(5):
        s = bytes(rng.randrange(256) for _ in range(rng.randrange(0, 9)))
        C.add(pair_case("T %d" % MSN, s, rand_cuts(rng, len(s))), "turn-garbage")
    # send path
    cookie = bytes([0x72, 0xc6, 0x4b, 0xc6])
    for compat in (RFC5766, DRAFT9, GOOGLE, OC2007, MSN):
        for _ in range(40 if tier == "quick" else 1500):
            n = rng.choice([0, 1, 2, 3, 4, 5, 26, 29, 30, 31, 32, 40, 100])
            data = bytearray(rng.randrange(256) for _ in range(n))
            if n >= 30 and rng.random() < 0.7:
                data[26:30] = cookie
            cuts = rand_cuts(rng, n, rng.choice(["few", "one", "tiny"]))
            if n >= 31 and rng.random() < 0.5:
                cuts = sorted(set(cuts) | {rng.choice([25, 26, 27, 28, 29, 30, 31])} - {n})
            bufs = cut(bytes(data), cuts) or [b""]
            if rng.random() < 0.2:
                bufs.insert(rng.randrange(len(bufs) + 1), b"")
            C.add("T %d %s:%s" % (compat, rng.choice("sr"), ",".join(hx(b) for b in bufs)), "turn-send")


def halves(o):
    """split an output line at the `|` token into token lists"""
    out, cur = [], []
    for t in o[1:]:
        if t == "|":
            out.append(cur); cur = []
        else:
            cur.append(t)
    out.append(cur)
    return out


def project(toks, stream_layer):
    """what the layers above and below can observe"""
    ups, downs, dead = [], [], "ok"
    for t in toks:
        if t[0] == "R":
            f = t.split(":")
            if int(f[0][1:]) < 0:
                dead = "err"
            elif len(f) >= 3:
                ups.append((unhex(f[2]), f[3] if len(f) > 3 else ""))
        elif t[0] == "D":
            downs.append(t[1:])
        elif t in ("FAULT", "LIVE"):
            dead = t.lower()
    if stream_layer:
        return (b"".join(u for u, _ in ups), [z for _, z in ups if z]), downs, dead
    return ups, downs, dead


def oracle_turn(t, o):
    compat = int(t[2])
    ops = t[3:]
    hs = halves(o)
    if "|" not in ops:          # send case
        for op, (d, s) in zip(ops, zip(hs[0][0::2], hs[0][1::2])):
            bufs = [unhex(x) for x in op[2:].split(",")]
            data, sent = b"".join(bufs), unhex(d[1:])
            if compat == GOOGLE:
                exp = (len(data) % 65536).to_bytes(2, "big") + data
            elif compat in (DRAFT9, RFC5766):
                exp = data + bytes(-len(data) % 4)
            elif compat == OC2007:
                if sent[2:] != data or sent[1] != 0 or sent[0] not in (2, 3):
                    return "OC2007 frame is not pt,0,payload"
                if len(bufs) == 1 and (sent[0] == 2) != (len(data) > 30 and data[26:30] == bytes([0x72, 0xc6, 0x4b, 0xc6])):
                    return "OC2007 payload type does not follow the magic cookie"
                exp = sent
            else:
                exp = data
            if sent != exp:
                return "frame sent downward differs from the framing rule"
        return None
    stream = b"".join(unhex(x[2:]) for x in ops[ops.index("|") + 1:] if x[:2] == "f:")
    a, b = project(hs[0], False), project(hs[1], False)
    msgs, status = turn_ref(compat, stream)
    if "fault" in (a[2], b[2]) or "live" in (a[2], b[2]):
        return "layer wrote outside recv_buf / failed an assertion / spun (%s / %s)" % (a[2], b[2])
    if a != b:
        return "chunked delivery and one-chunk delivery differ: %r vs %r" % (summ(a), summ(b))
    if [m for m, _ in b[0]] != msgs or b[2] != status:
        return "messages delivered upward differ from the framing rules (got %d msgs, status %s; expected %d, %s)" % (len(b[0]), b[2], len(msgs), status)
    return None


def summ(p):
    ups, downs, dead = p
    if isinstance(ups, tuple):
        return (len(ups[0]), ups[0][:24].hex(), ups[1], downs[:4], dead)
    return ([(len(m), m[:12].hex()) for m, _ in ups[:6]], downs[:4], dead)



# ------------------------------------------------------------------------------------------------------
# proxy / pseudo-ssl layers: shared segmentation generators
# ------------------------------------------------------------------------------------------------------
def window_segmentations(n, w, starts):
    """every subset of the cut positions inside a window of w consecutive positions, for each window start"""
    seen = set()
    for st in starts:
        pos = [p for p in range(st, st + w) if 1 <= p <= n - 1]
        for mask in range(1 << len(pos)):
            cuts = tuple(p for i, p in enumerate(pos) if mask >> i & 1)
            if cuts not in seen:
                seen.add(cuts); yield list(cuts)


def seg_suite(rng, n, hs, tier, heavy=True):
    """segmentations for a stream of n bytes whose handshake part is hs bytes long"""
    out = []
    w = (9 if tier == "quick" else 14) if heavy else (6 if tier == "quick" else 10)
    if n <= w + 1:
        out += list(all_segmentations(n))
    else:
        starts = sorted({1, max(1, hs - w // 2), max(1, hs - w + 2), max(1, min(n - w, hs + 1)), max(1, n - w)})
        if tier != "quick":
            starts = sorted(set(starts) | set(range(1, max(2, n - w + 1), max(1, w // 2))))
        out += list(window_segmentations(n, w, starts))
    if tier != "quick" or n <= 40:
        out += [[i] for i in range(1, n)]
        out += [[i, j] for i in range(1, n) for j in range(i + 1, min(n, i + 4))]
    else:
        out += [[i] for i in sorted({rng.randrange(1, n) for _ in range(30)} | {hs, hs - 1, hs + 1} & set(range(1, n)))]
    for _ in range(6):
        out.append(rand_cuts(rng, n))
    seen, uniq = set(), []
    for c in out:
        if tuple(c) not in seen:
            seen.add(tuple(c)); uniq.append(c)
    return uniq


def tunnel_bytes(rng, k):
    return bytes(rng.choice([0, 5, 1, 0xff, 0x0d, 0x0a, 0x20, 0x32, rng.randrange(256)]) for _ in range(k))


# ------------------------------------------------------------------------------------------------------
# (2) SOCKS5
# ------------------------------------------------------------------------------------------------------
def gen_socks(rng, C, tier):
    addr4, addr6 = bytes([1, 2, 3, 4, 0x1f, 0x90]), bytes(range(16)) + bytes([0, 80])
    creds = [("-", "-"), ("75", "70"), ("75", "-"), ("-", "70")]

    def replies(auth, ok=True):
        m = bytes([5, 2]) + bytes([1, 0]) if auth else bytes([5, 0])
        return m

    def case(G, user, pw, addr, stream, cuts, hs, expect, pre="", post=""):
        pfx = "S %d %s %s %s%s" % (G, user, pw, hx(addr), pre)
        body = "%s %s%s | %s%s %s%s" % (pfx, feeds(cut(stream, cuts)), post, pre.strip(), "", feeds([stream]), post)
        C.add(body.replace("  ", " "), "socks5-" + expect[0])
        C.cases[-1] = (C.cases[-1][0].replace(" ", ":%s:%d " % (expect[1], hs), 1), C.cases[-1][1])

    # successful handshakes, every segmentation (windowed), tunnelled bytes after it
    for (user, pw) in creds[:2] if tier == "quick" else creds:
        auth = (user, pw) != ("-", "-")
        for atyp, tail in ((1, bytes([127, 0, 0, 1, 0x1f, 0x90])), (4, bytes(range(100, 118)))):
            hsb = replies(auth) + bytes([5, 0, 0, atyp]) + tail
            for extra in ((0, 3) if tier == "quick" else (0, 1, 7, 18)):
                stream = hsb + tunnel_bytes(rng, extra)
                for cuts in seg_suite(rng, len(stream), len(hsb), tier, heavy=(atyp == 1 and not auth)):
                    G = rng.choice([0xaa, 0, 2, 5, 1])
                    pre = " r:%s" % hx(tunnel_bytes(rng, 3)) if rng.random() < 0.3 else ""
                    post = " s:%s" % hx(b"\xee\x01") if rng.random() < 0.2 else ""
                    case(G, user, pw, addr4 if rng.random() < 0.7 else addr6, stream, cuts, len(hsb), ("all-segmentations", "ok"), pre, post)
    # reply grammar: every error code, wrong versions, unsupported address types, bad reserved byte, auth failures
    n = 150 if tier == "quick" else 6000
    for _ in range(n):
        user, pw = rng.choice(creds)
        auth = (user, pw) != ("-", "-")
        expect = "ok"
        method = bytes([5, 2 if auth else 0])
        r = rng.random()
        if r < 0.15:
            method = bytes([rng.choice([4, 0, 6, 5]), rng.choice([0, 2, 1, 0xff])]); expect = "?"
        stream = method
        if method == bytes([5, 2]) and auth:
            a = bytes([1, 0]) if rng.random() < 0.8 else bytes([rng.choice([1, 0, 5]), rng.choice([0, 1, 0xff])])
            stream += a
            if a != bytes([1, 0]):
                expect = "err"
        elif method == bytes([5, 2]):
            expect = "err"
        elif method != bytes([5, 0]):
            expect = "err"
        rep = rng.choice([0] * 6 + list(range(1, 10)) + [0xff])
        ver = 5 if rng.random() < 0.9 else rng.choice([4, 0, 1])
        rsv = 0 if rng.random() < 0.9 else rng.randrange(1, 256)
        atyp = rng.choice([1, 1, 4, 4, 3, 0, 2, 0xff])
        tail = bytes(rng.randrange(256) for _ in range({1: 6, 4: 18}.get(atyp, rng.randrange(0, 8))))
        if rng.random() < 0.05:
            tail = tail[:rng.randrange(0, len(tail) + 1)]
        conn = bytes([ver, rep, rsv, atyp]) + tail
        if expect != "err":
            if ver != 5 or rep != 0 or rsv != 0 or atyp not in (1, 4) or len(tail) != {1: 6, 4: 18}[atyp]:
                expect = "err" if (ver != 5 or rep != 0 or rsv != 0 or atyp not in (1, 4)) else "?"
        hs = len(stream) + len(conn)
        stream += conn + tunnel_bytes(rng, rng.choice([0, 0, 1, 5, 18]))
        if len(user) > 2 and False:
            pass
        case(rng.choice([0xaa, 0, 2, 5, 1, 4]), user, pw, rng.choice([addr4, addr6]), stream,
             rand_cuts(rng, len(stream), rng.choice(["one", "few", "many"])), hs, ("reply-grammar", expect if expect != "?" else "any"),
             " r:%s" % hx(tunnel_bytes(rng, 2)) if rng.random() < 0.3 else "")
    # exactly one field of an otherwise successful exchange is wrong: every reply code, version, reserved byte, address type
    for (user, pw) in creds:
        auth = (user, pw) != ("-", "-")
        good = [bytes([5, 2 if auth else 0])] + ([bytes([1, 0])] if auth else []) + [bytes([5, 0, 0, 1]) + bytes([10, 0, 0, 1, 0, 80])]
        flat = b"".join(good)
        fields = []
        off = 0
        for part in good:
            for i in range(min(len(part), 4)):
                fields.append(off + i)
            off += len(part)
        for fpos in fields:
            vals = set(range(0, 10)) | {0x7f, 0x80, 0xff} if tier == "quick" else set(range(256))
            for v in sorted(vals - {flat[fpos]}):
                bad = bytearray(flat); bad[fpos] = v
                # an IPv6 address type is a different, valid shape: append the longer tail
                if fpos == len(flat) - 7 and v == 4:
                    bad += bytes(12)
                    exp = "ok"
                else:
                    exp = "err"
                stream = bytes(bad) + b"\x01\x02"
                case(0xaa, user, pw, addr4, stream, [], len(bad), ("one-field-wrong", exp))
    # long credentials (255 fits, 256 is refused), garbage
    for ulen, plen in ((255, 255), (256, 1), (1, 256), (0, 0)):
        user = ("61" * ulen) or "-"
        pw = ("62" * plen) or "-"
        stream = bytes([5, 2, 1, 0, 5, 0, 0, 1, 9, 9, 9, 9, 0, 1]) + b"xyz"
        if (user, pw) == ("-", "-"):
            user = "" if False else "-"
        case(0xaa, user, pw, addr4, stream, [2, 4], 14, ("long-credentials", "any"))
    for _ in range(30 if tier == "quick" else 1000):
        stream = bytes(rng.choice([5, 0, 1, 2, 4, rng.randrange(256)]) for _ in range(rng.randrange(1, 30)))
        user, pw = rng.choice(creds)
        case(rng.choice([0xaa, 0, 2]), user, pw, addr4, stream, rand_cuts(rng, len(stream)), len(stream), ("garbage", "any"))
    # long tunnelled streams, random segmentation
    for _ in range(6 if tier == "quick" else 60):
        hsb = bytes([5, 0, 5, 0, 0, 1, 127, 0, 0, 1, 0, 80])
        k = rng.choice([300, 5000] if tier == "quick" else [5000, 80000, 204800])
        stream = hsb + bytes(rng.randrange(256) for _ in range(k))
        cuts = sorted(set(rand_cuts(rng, len(stream), "many")) | {2, 12})     # handshake units arrive whole
        case(0xaa, "-", "-", addr4, stream, cuts, 12, ("long-tunnel", "ok"))


# ------------------------------------------------------------------------------------------------------
# (3) pseudo-SSL
# ------------------------------------------------------------------------------------------------------
PSSL_GOOGLE = bytes([0x16, 0x03, 0x01, 0x00, 0x4a, 0x02, 0x00, 0x00, 0x46, 0x03, 0x01, 0x42, 0x85, 0x45, 0xa7, 0x27, 0xa9, 0x5d, 0xa0, 0xb3,
                     0xc5, 0xe7, 0x53, 0xda, 0x48, 0x2b, 0x3f, 0xc6, 0x5a, 0xca, 0x89, 0xc1, 0x58, 0x52, 0xa1, 0x78, 0x3c, 0x5b, 0x17, 0x46,
                     0x00, 0x85, 0x3f, 0x20, 0x0e, 0xd3, 0x06, 0x72, 0x5b, 0x5b, 0x1b, 0x5f, 0x15, 0xac, 0x13, 0xf9, 0x88, 0x53, 0x9d, 0x9b,
                     0xe8, 0x3d, 0x7b, 0x0c, 0x30, 0x32, 0x6e, 0x38, 0x4d, 0xa2, 0x75, 0x57, 0x41, 0x6c, 0x34, 0x5c, 0x00, 0x04, 0x00])


def pssl_msoc(rng):
    m = bytearray(83)
    m[0:11] = bytes([0x16, 0x03, 0x01, 0x00, 0x4e, 0x02, 0x00, 0x00, 0x46, 0x03, 0x01])
    m[43] = 0x20; m[77] = 0x18; m[79] = 0x0e
    for i in list(range(11, 43)) + list(range(44, 76)):
        m[i] = rng.randrange(256)
    return bytes(m)


def gen_pssl(rng, C, tier):
    def case(compat, stream, cuts, hs, expect, kind, pre="", post=""):
        body = "P %d%s %s%s | %s %s%s" % (compat, pre, feeds(cut(stream, cuts)), post, pre.strip(), feeds([stream]), post)
        C.add(body.replace("  ", " "), "pssl-" + kind)
        C.cases[-1] = (C.cases[-1][0].replace(" ", ":%s:%d " % (expect, hs), 1), C.cases[-1][1])

    for compat in (0, 1):
        hello = PSSL_GOOGLE if compat == 0 else pssl_msoc(rng)
        for extra in ((0, 4) if tier == "quick" else (0, 1, 18)):
            stream = hello + tunnel_bytes(rng, extra)
            for cuts in seg_suite(rng, len(stream), len(hello), tier, heavy=False):
                pre = " r:%s" % hx(tunnel_bytes(rng, 3)) if rng.random() < 0.3 else ""
                case(compat, stream, cuts, len(hello), "ok", "all-segmentations", pre, " s:0102" if rng.random() < 0.2 else "")
        for _ in range(40 if tier == "quick" else 1500):
            h = bytearray(PSSL_GOOGLE if compat == 0 else pssl_msoc(rng))
            r = rng.random()
            expect = "ok"
            if r < 0.5:
                i = rng.randrange(len(h)); old = h[i]; h[i] ^= 1 << rng.randrange(8)
                if not (compat == 1 and (11 <= i < 43 or 44 <= i < 76)):
                    expect = "err"
            elif r < 0.6:
                h = h[:rng.randrange(1, len(h))]; expect = "any"
            elif r < 0.7:
                h = bytearray(PSSL_GOOGLE if compat == 1 else pssl_msoc(rng)); expect = "any"
            stream = bytes(h) + tunnel_bytes(rng, rng.choice([0, 3, 18, 100]))
            case(compat, stream, rng.choice([[], [len(h)] if len(h) < len(stream) else [], rand_cuts(rng, len(stream))]), len(h), expect, "reply-grammar")
        for _ in range(4 if tier == "quick" else 40):
            k = rng.choice([2000] if tier == "quick" else [20000, 204800])
            stream = hello + bytes(rng.randrange(256) for _ in range(k))
            cuts = sorted({c for c in rand_cuts(rng, len(stream), "many") if c >= len(hello)} | {len(hello)})
            case(compat, stream, cuts, len(hello), "ok", "long-tunnel")


# ------------------------------------------------------------------------------------------------------
# (1) HTTP CONNECT
# ------------------------------------------------------------------------------------------------------
def http_reply(rng, good=True, body=None, longline=0):
    """returns (reply bytes, expected outcome 'ok' | 'err' | 'any', content-length present)"""
    expect = "ok"
    ver = rng.choice(["HTTP/1.0", "HTTP/1.1"])
    code = rng.choice(["200", "200", "200", "201", "299"])
    lead = rng.choice(["", "", " ", "   "])
    sp = rng.choice([" ", " ", "  "])
    reason = rng.choice([" OK", " Connection established", "", " x"])
    eol = "\r\n"
    if not good:
        r = rng.random()
        if r < 0.4:
            code = rng.choice(["404", "407", "500", "302", "100", "199", "300", "2x0", "20", "020"]); expect = "err"
        elif r < 0.55:
            ver = rng.choice(["HTTP/2.0", "HTTP/1.2", "HTTX/1.0", "http/1.0", "HTTP/1."]); expect = "err"
        elif r < 0.65:
            sp = ""; expect = "err"
        elif r < 0.8:
            eol = rng.choice(["\n", "\r", "\r\r\n"]); expect = "any"
        else:
            return bytes(rng.randrange(256) for _ in range(rng.randrange(1, 60))), "any", False
    out = (lead + ver + sp + code + reason + eol).encode()
    hdrs, has_cl = [], False
    for _ in range(rng.choice([0, 0, 1, 2, 4])):
        hdrs.append(rng.choice(["Proxy-Agent: x", "Via: 1.1 proxy", "X:", "Connection: keep-alive", "Content-Type: text/html", "A: " + "b" * rng.randrange(0, 40)]))
    if longline:
        hdrs.insert(rng.randrange(len(hdrs) + 1), "X-Long: " + "".join(rng.choice("abcdefgh \r") if rng.random() < 0.02 else "q" for _ in range(longline)))
        expect = "any"
    if body is not None:
        name = rng.choice(["Content-Length", "content-length", "CONTENT-LENGTH", "cOnTeNt-lEnGtH"])
        val = str(len(body))
        r = rng.random()
        if r < 0.1:
            val = rng.choice(["", "x", "12a", "-1", "1 2"]); expect = "any"
        elif r < 0.2:
            val = rng.choice(["18446744073709551615", "18446744073709551616", "99999999999999999999999", "1844674407370955161"]); expect = "any"
        elif r < 0.3:
            val = str(len(body) + rng.randrange(1, 50)); expect = "any"
        hdrs.insert(rng.randrange(len(hdrs) + 1), name + ":" + rng.choice(["", " ", "   "]) + val)
        has_cl = True
    for h in hdrs:
        out += h.encode() + b"\r\n"
    out += b"\r\n" + (body or b"")
    return out, expect, has_cl


def gen_http(rng, C, tier):
    Gs = [0xbe, 13, 48, 57, 32, 10, 0, 65]

    def case(G, stream, cuts, hs, expect, kind, pre="", post="", caps=None):
        # caps: sizes of the caller's receive buffer to choose from, independently for every readable event of the
        # chunked delivery and for the one-chunk delivery (None = 70000 throughout)
        fa = " ".join(("c:%d " % rng.choice(caps) if caps else "") + "f:" + hx(c) for c in cut(stream, cuts))
        fb = ("c:%d " % rng.choice(caps) if caps else "") + feeds([stream])
        body = "H %d%s %s%s | %s %s%s" % (G, pre, fa, post, pre.strip(), fb, post)
        C.add(body.replace("  ", " "), "http-" + kind)
        C.cases[-1] = (C.cases[-1][0].replace(" ", ":%s:%d " % (expect, hs), 1), C.cases[-1][1])

    # minimal and typical replies: windowed exhaustive segmentation, up to 18 bytes past the reply
    basics = [(b"HTTP/1.0 200 OK\r\n\r\n", "ok"), (b"HTTP/1.1 200 OK\r\nContent-Length: 3\r\n\r\nabc", "ok"),
              (b"HTTP/1.1 200 OK\r\nVia: x\r\ncontent-length:12\r\n\r\n0123456789ab", "ok"), (b"HTTP/1.1 407 Auth\r\n\r\n", "err")]
    for rep, expect in basics[:3] if tier == "quick" else basics:
        for extra in ((0, 5) if tier == "quick" else (0, 1, 18)):
            stream = rep + tunnel_bytes(rng, extra)
            for cuts in seg_suite(rng, len(stream), len(rep), tier, heavy=False):
                pre = " r:%s" % hx(tunnel_bytes(rng, 3)) if rng.random() < 0.3 else ""
                case(rng.choice(Gs), stream, cuts, len(rep), expect, "all-segmentations", pre, " s:0102" if rng.random() < 0.2 else "")
    # small caller buffers (what udp-turn-over-tcp on top of this layer passes: 2..4 header bytes at a time): bytes that
    # follow the reply in the same read must come out over the following calls, whatever the chunking and the buffer sizes
    small = (1, 2, 4, 16)
    for rep, expect in basics[:3]:
        for extra in ((1, 5, 18) if tier == "quick" else (1, 2, 5, 18, 40)):
            stream = rep + tunnel_bytes(rng, extra)
            for cuts in seg_suite(rng, len(stream), len(rep), tier, heavy=False):
                pre = " r:%s" % hx(tunnel_bytes(rng, 3)) if rng.random() < 0.3 else ""
                case(rng.choice(Gs), stream, cuts, len(rep), expect, "small-caller-buffer", pre, caps=small)
    for _ in range(300 if tier == "quick" else 8000):
        body = None
        if rng.random() < 0.4:
            body = bytes(rng.choice(b"abc\r\n 0123456789") for _ in range(rng.choice([0, 1, 3, 10, 40])))
        rep, expect, has_cl = http_reply(rng, good=rng.random() < 0.85, body=body, longline=rng.choice([0, 0, 0, 1100]))
        stream = rep + tunnel_bytes(rng, rng.choice([1, 2, 4, 5, 17, 60, 300, 3000]))
        cuts = [c for c in rand_cuts(rng, len(stream), rng.choice(["one", "few", "many", "tiny"])) if c != len(rep) or rng.random() < 0.3]
        case(rng.choice(Gs), stream, cuts, len(rep), expect, "small-caller-buffer-grammar",
             " r:%s" % hx(tunnel_bytes(rng, 2)) if rng.random() < 0.3 else "",
             caps=rng.choice([small, small, (1,), (2, 4), (3, 16, 100, 70000)]))
    # grammar of replies
    for _ in range(400 if tier == "quick" else 12000):
        body = None
        if rng.random() < 0.5:
            body = bytes(rng.choice(b"abc\r\n 0123456789") for _ in range(rng.choice([0, 1, 2, 3, 10, 40, 300])))
        rep, expect, has_cl = http_reply(rng, good=rng.random() < 0.7, body=body)
        stream = rep + tunnel_bytes(rng, rng.choice([0, 0, 1, 4, 18, 60]))
        style = rng.choice(["one", "few", "many", "tiny", "exact"])
        cuts = [len(rep)] if style == "exact" and len(rep) < len(stream) else rand_cuts(rng, len(stream), style if style != "exact" else "few")
        if rng.random() < 0.3 and len(rep) < len(stream):
            cuts = sorted(set(cuts) | {len(rep)})
        case(rng.choice(Gs), stream, cuts, len(rep), expect, "reply-grammar",
             " r:%s" % hx(tunnel_bytes(rng, 2)) if rng.random() < 0.3 else "")
    # long header lines: ring growth, also while wrapped
    for _ in range(12 if tier == "quick" else 300):
        rep, expect, _ = http_reply(rng, True, body=rng.choice([None, b"xyz"]), longline=rng.choice([900, 1000, 1010, 1024, 1100, 2100, 5000]))
        stream = rep + tunnel_bytes(rng, rng.choice([0, 5]))
        cuts = sorted(set(rand_cuts(rng, len(stream), rng.choice(["few", "many"]))) | ({len(rep)} if len(rep) < len(stream) else set()))
        case(rng.choice(Gs), stream, cuts, len(rep), "any", "ring-growth")
    # a well-formed reply with one long header line; the tunnelled bytes arrive in a read of their own
    for nq in (1100, 2100):
        for G in (13, 10, 0xbe):
            rep = b"HTTP/1.0 200 OK\r\nX-Long: " + b"q" * nq + b"\r\n\r\n"
            stream = rep + b"\x01\x02"
            case(G, stream, sorted(set(rand_cuts(rng, len(rep), "few")) | {len(rep)}), len(rep), "ok", "ring-growth")
    # long tunnelled streams
    for _ in range(4 if tier == "quick" else 40):
        rep = b"HTTP/1.0 200 OK\r\nX: y\r\n\r\n"
        k = rng.choice([3000] if tier == "quick" else [20000, 204800])
        stream = rep + bytes(rng.randrange(256) for _ in range(k))
        cuts = sorted({c for c in rand_cuts(rng, len(stream), "many") if c >= len(rep) or rng.random() < 0.5} | {len(rep)})
        case(0xbe, stream, cuts, len(rep), "any", "long-tunnel")


HS_READS = {"S": (2, 4, 6, 18), "P": (79, 83)}


def oracle_proxy(t, o):
    """SOCKS5 / pseudo-SSL / HTTP: chunked delivery == one-chunk delivery (upward byte stream, downward sends, outcome)"""
    layer = t[1]
    idf = t[0].split(":")
    expect, hs = (idf[1], int(idf[2])) if len(idf) >= 3 else ("any", 0)
    ops = t[2:]
    hs_ = halves(o)
    if len(hs_) != 2:
        return "output has no second half"
    k = ops.index("|")
    stream = b"".join(unhex(x[2:]) for x in ops[k + 1:] if x[:2] == "f:")
    a, b = project(hs_[0], True), project(hs_[1], True)
    toks = hs_[0] + hs_[1]
    if "FAULT" in toks or "LIVE" in toks:
        return "layer faulted or spun (%s / %s)" % (a[2], b[2])
    if a != b:
        return "chunked delivery and one-chunk delivery differ: %r vs %r" % (summ(a), summ(b))
    # the expected outcome of a well-formed exchange (one-chunk delivery)
    if expect == "ok":
        if b[2] != "ok" or b[0][0] != stream[hs:] or b[0][1]:
            return "well-formed reply: expected a transparent tunnel delivering %d bytes, got %r" % (len(stream) - hs, summ(b))
    elif expect == "err" and b[2] != "err":
        return "proxy refusal / malformed reply was not reported as an error: %r" % (summ(b),)
    return None

# ------------------------------------------------------------------------------------------------------
# ------------------------------------------------------------------ ICE-TCP frames read through the component's GSource (agent.c:4938-5004)
def gen_iostream(rng, i):
    """Reliable agents over ICE-TCP (RFC 4571 frames on a real loopback TCP connection, harness/data_h.c); agent 1's application reads through
    nice_agent_get_io_stream(): every dispatch of the pollable source does ONE read of at most cap bytes.  Agent 0 writes bursts of frames back to
    back, so that one kernel read brings several frames and its last byte is the last byte of a frame."""
    import C02
    bs = rng.randrange(2)
    # packetised mode (bytestream-tcp FALSE) documents that a read smaller than the packet drops the rest of it: the reader's buffer then holds any frame
    cap = rng.choice([1, 7, 100, 1284, 4096, 65536, 65536, 70000]) if bs else rng.choice([4000, 4096, 65536, 65536, 70000])
    ops = ["C1;0", "I1;%d" % cap, "P"]
    sent = []
    ctr = rng.randrange(1, 200)
    for _ in range(rng.randrange(1, 5)):
        burst = []
        for _ in range(rng.choice([1, 2, 3, 5, 10])):
            n = rng.choice([1, 2, 3, 20, 100, 576, 1284, 1284, 4000])
            ctr += 1
            burst.append((n, ctr))
        if rng.random() < 0.5:
            ops.append("S0;" + "|".join("%d;g%d" % (n, sd) for n, sd in burst)); sent.append(burst)
        else:
            for n, sd in burst:
                ops.append("S0;%d;g%d" % (n, sd)); sent.append([(n, sd)])
        if rng.random() < 0.3:
            ops.append("K1;" + ".".join(str(rng.choice([1, 2, 3, 100, 1286, 2572, 5000])) for _ in range(rng.randrange(1, 6))))
        ops += ["P", "T20", "P"]
    ops += ["T200", "P", "P", "R1"]
    return "io%d r1b%dk0s%d %s" % (i, bs, rng.randrange(1, 1 << 30), " ".join(ops)), sent


def oracle_iostream(line, out, sent):
    import C02
    toks = out.split()
    if "READY" not in toks:
        return None
    rets = [t for t in toks if t[0] == "s" and t[1:].lstrip("-").isdigit()]
    if len(rets) != len(sent) or any(int(r[1:]) != len(b) for r, b in zip(rets, sent)):
        return None      # a send was refused or partial: not this stage's subject
    want = b"".join(C02.gen_bytes(n, sd, "g") for b in sent for n, sd in b)
    got = b"".join(bytes.fromhex(t[3:]) for t in toks if t.startswith("m1:") and t[3] not in "-!")
    if any(t.startswith("m1:!") for t in toks):
        return "read through the component's input stream failed :: %s" % [t for t in toks if t.startswith("m1:!")][0]
    rs = [t for t in toks if t.startswith("R1:")]
    if got != want:
        if want.startswith(got):
            st = rs[-1] if rs else "?"
            return ("%d of %d bytes written by the peer were never handed to the reader of the component's input stream although the connection is idle "
                    "(reassembly state wakeup:frame_size:headroom:consumed = %s): a complete frame is left in the RFC 4571 buffer and nothing wakes the source"
                    % (len(want) - len(got), len(want), st[3:]))
        return "the reader of the component's input stream received other bytes than the peer wrote (%d bytes, %d written)" % (len(got), len(want))
    if rs:
        w, fs, h, cs = map(int, rs[-1][3:].split(":"))
        if fs != 0 and fs <= h:
            return "idle connection, yet a complete frame (%d bytes of %d buffered) sits in the RFC 4571 reassembly buffer (wakeup_needed=%d)" % (fs, h, w)
    return None


def iostream_stage(chk):
    import C02
    impl, o = C02.build_impl()
    if not impl:
        chk.broken_obligation("impl-build-data_h", o[-3000:]); return
    rng = chk.sub_rng("iostream")
    n = 48 if chk.tier == "quick" else 2000
    cases = [gen_iostream(rng, i) for i in range(n)]
    lines = [c[0] + "\n" for c in cases]
    nv = notready = 0
    for lo in range(0, len(lines), 256):
        part = lines[lo:lo + 256]
        outs, errs = vlib.run_sharded(impl, part, nshards=min(len(part), 64), timeout=600)
        for idx, rc, se in errs:
            nv += 1
            if nv <= 3:
                chk.violation({"kind": "impl-crash", "what": "iostream-C17", "case": cases[lo + idx][0], "rc": rc, "stderr": se[-3000:]},
                              "iostream-C17: implementation crashed or sanitizer report (rc=%s) on case: %s\n%s" % (rc, cases[lo + idx][0][:300], se[-1500:]))
        for k, out in enumerate(outs):
            line, sent = cases[lo + k]
            if out is None:
                continue
            if " NOTREADY" in out:
                notready += 1
            why = oracle_iostream(line, out, sent)
            chk.count_case(line, " m1:" in out, "iostream")
            if why:
                nv += 1
                if nv <= 3:
                    chk.violation({"kind": "oracle", "what": "iostream-C17", "case": line, "impl": out[:4000], "why": why},
                                  "iostream-C17: %s\n case: %s" % (why, line[:400]))
            if lo + k < 2:
                chk.sample({"case": line[:300], "impl": out[:300]})
    chk.cov["correspondence"]["iostream-C17"] = {"cases": len(cases), "not_ready": notready, "violations": nv}
    if notready * 4 > len(cases):
        chk.broken_obligation("harness:iostream-C17", "%d of %d cases did not reach READY over loopback TCP" % (notready, len(cases)))


def gen_cases(rng, tier):
    C = Counter()
    gen_queue(rng, C, tier)
    gen_turn(rng, C, tier)
    gen_socks(rng, C, tier)
    gen_pssl(rng, C, tier)
    gen_http(rng, C, tier)
    return C.cases


def oracle(line, out):
    t, o = line.split(), out.split()
    if o[0] != t[0]:
        return "harness answered for another case"
    return {"Q": oracle_queue, "T": oracle_turn, "S": oracle_proxy, "P": oracle_proxy, "H": oracle_proxy}[t[1]](t, o)


def nontrivial(line, out):
    return out is not None and any(x in out for x in (" R1:", " D", " K", " S1"))


def pregen():
    import tabgen
    return tabgen.rfc4571_wake_shape()


def run(chk):
    gi, err = pregen()
    if gi is None:
        chk.broken_obligation("translator/table-extractor", err)
    chk.prove(["Props/Properties_C17.v"], ["Stream/Extract_Stream.vo"])
    model, o = vlib.ocaml_build("stream_model", "stream_model", DRIVER)
    if not model:
        chk.broken_obligation("extract-build", o[-2000:])
    impl, o = build_impl()
    if not impl:
        chk.broken_obligation("impl-build", o[-3000:])
    if impl:
        cases = gen_cases(chk.rng, chk.tier)
        if model:
            vlib.correspond(chk, cases, model, impl, oracle=oracle, what="stream-layers", nontrivial=nontrivial,
                            max_report=5, timeout=1500)
        else:
            vlib.correspond(chk, cases, impl, impl, oracle=oracle, what="stream-layers-oracle-only", max_report=5, timeout=1500)
    iostream_stage(chk)
    return chk.finish(**FINISH)


def replay(chk, path):
    r = json.load(open(path))["replay"]
    impl, o = build_impl()
    if "case" not in r:
        print(json.dumps(r, indent=1)[:3000]); return 0
    rc, so, se = vlib.run_lines(impl, r["case"] + "\n")
    print("impl:", so.strip()[:3000], "\noracle:", oracle(r["case"], so.strip()) if so.strip() else se[-2000:])
    model, o = vlib.ocaml_build("stream_model", "stream_model", DRIVER)
    if model:
        print("model:", vlib.run_lines(model, r["case"] + "\n")[1].strip()[:3000])
    return 0
