"""Generators and implementation-side oracles shared by the STUN checks (C04, C05, C06, C07).
A case is one program line for harness/stun_h.c / ocaml/stun_driver.ml (see stun_h.c for the ops)."""
import hashlib, hmac, re, struct, zlib
import vlib, tabgen
from stun_gen import *

DRIVER = ["zutil_z.ml.in", "zutil_big.ml.in", "zutil_hex.ml.in", "stun_driver.ml"]
KNOWN_HEX = "".join("%04x" % k for k in KNOWN)
DUMP_TYPES = [0x0001, 0x0006, 0x0008, 0x0009, 0x000d, 0x0013, 0x0014, 0x0015, 0x0020, 0x0024, 0x0025,
              0x8022, 0x8028, 0x8029, 0x802a, 0x8070]


def pregen():
    i1, e1 = tabgen.crc32_table()
    i2, e2 = tabgen.strerror_table()
    i3, e3 = vlib.gen_module("StunUtils", [("stun/utils.c", ["stun_padding", "stun_align"], ["stun/utils.h"])])
    i4, e4 = tabgen.utf8_skip_table()
    if i1 is None or i2 is None or i3 is None or i4 is None:
        return None, e1 or e2 or e3 or e4
    return {"crc": i1, "strerror": i2, "utils": i3, "utf8": i4}, ""


def build_model():
    return vlib.ocaml_build("stun_model", "stun_model", DRIVER)


def build_impl():
    srcs = [s for s in vlib.STUN_SRCS if s != "stun/rand.c"]
    return vlib.cc("stun_h", ["stun_h.c"], srcs)


def prebuild():
    m, o = build_model()
    return None if m else o


# ------------------------------------------------------------------ generators
FLAGSETS = [0, F_SHORT, F_SHORT | F_FPR, F_SHORT | F_FPR | F_CONSENT, F_LONG, F_LONG | F_FPR, F_FPR, F_SHORT | F_NOALIGN,
            F_SHORT | F_IGN, F_SHORT | F_NOIND, F_SHORT | F_FORCE, F_LONG | F_NOIND, F_SHORT | F_FPR | F_SW, F_IGN | F_FPR,
            F_SHORT | F_LONG, F_NOALIGN | F_FPR | F_SHORT, F_CONSENT | F_SHORT | F_FPR | F_IGN]


def pick_cfg(rng):
    compat = rng.randrange(4)
    flags = rng.choice(FLAGSETS) if rng.random() < 0.8 else rng.randrange(512)
    return compat, flags


def valid_msg(rng, compat, flags, cls=None, method=None, txid=None, key=None, user=None, realm=None, nattr=None, fpr=None, padbyte=0):
    cls = rng.choice([0, 0, 1, 2, 3]) if cls is None else cls
    method = rng.choice([1, 1, 3, 4, 6, 7, 8, 9, 0x115 & 0xfff, rng.randrange(0x1000)]) if method is None else method
    m = Msg(cls, method, txid or rand_txid(rng), compat, flags)
    m.padbyte = padbyte
    n = rng.randrange(0, 5) if nattr is None else nattr
    if user is not None:
        m.add(A_USERNAME, user)
    if realm is not None:
        m.add(A_REALM, realm); m.add(A_NONCE, b"nonce")
    for _ in range(n):
        t, v = rand_attr(rng)
        if t in (A_MI, A_FPR) or (user is not None and t == A_USERNAME) or (realm is not None and t in (A_REALM, A_NONCE)):
            continue
        m.add(t, v)
    if key is not None:
        m.mi(key, (user, realm) if (flags & F_LONG and realm is not None) else None)
    if fpr if fpr is not None else (compat in (1, 2) and flags & F_FPR):
        m.fpr(typo=rng.random() < 0.15)
    return m


def mutate(rng, b):
    b = bytearray(b)
    if not b:
        return bytes(b)
    r = rng.random()
    if r < 0.3:
        i = rng.randrange(len(b)); b[i] ^= 1 << rng.randrange(8)
    elif r < 0.45:
        for _ in range(rng.randrange(2, 6)):
            b[rng.randrange(len(b))] = rng.randrange(256)
    elif r < 0.6 and len(b) >= 4:
        v = struct.unpack(">H", b[2:4])[0] + rng.choice([-8, -4, -1, 1, 3, 4, 8, 65535])
        b[2:4] = struct.pack(">H", v % 65536)
    elif r < 0.75:
        b = b[:rng.randrange(len(b) + 1)]
    elif r < 0.85:
        b += bytes(rng.randrange(256) for _ in range(rng.choice([1, 3, 4, 8])))
    else:
        # change an attribute length field
        p = parse(bytes(b), False)
        if p and p[3]:
            t, v, off = rng.choice(p[3])
            b[off - 2:off] = struct.pack(">H", rng.choice([0, 1, 3, len(v) + 1, len(v) + 4, 19, 20, 21, 65535]))
    return bytes(b)


def split(rng, b, allow_empty=True):
    parts, i = [], 0
    while i < len(b):
        if allow_empty and rng.random() < 0.25:
            parts.append(b"")
        n = rng.choice([1, 1, 2, 3, 4, 5, rng.randrange(1, max(2, len(b)))])
        parts.append(b[i:i + n]); i += n
    if allow_empty and rng.random() < 0.2:
        parts.append(b"")
    return parts[:64] if len(parts) <= 64 else parts[:63] + [b"".join(parts[63:])]


def vtable(entries):
    return ",".join("%s:%s" % (hx(u), hx(p)) for u, p in entries) if entries else "-"


ULEN = [1, 2, 3, 4, 5, 6, 7, 8, 8, 9, 10, 10, 10, 11, 12]     # the typed string accessor is exercised with a 10-byte buffer: lengths around it


def gen_case(rng, i, kinds):
    kind = rng.choice(kinds)
    compat, flags = pick_cfg(rng)
    head = "s%d %d %d %s" % (i, compat, flags, KNOWN_HEX)
    padded = 0 if flags & F_NOALIGN else 1
    ops = []
    if kind == "lenchk":
        m = valid_msg(rng, compat, flags).raw()
        r = rng.random()
        b = m if r < 0.3 else m[:rng.randrange(len(m) + 1)] if r < 0.5 else mutate(rng, m) if r < 0.85 else bytes(rng.randrange(256) for _ in range(rng.randrange(0, 60)))
        if rng.random() < 0.12:
            # a lone attribute whose length field is within 3 of 65535 (padding would wrap a 16-bit sum), in a message of 4..12 attribute bytes
            al = rng.choice([0xfffc, 0xfffd, 0xfffe, 0xffff, 0xfff9]); body = rng.choice([4, 8, 12])
            b = m[:2] + struct.pack(">H", body) + m[4:20] + struct.pack(">HH", rng.choice([6, 0x8022, 0x20]), al) + bytes(body - 4)
        ops.append("VL %d %s" % (padded, hx(b)))
        parts = split(rng, b)
        if parts:
            nt = rng.randrange(2)
            ops.append("VF %d %d %d %d %s" % (padded, len(b), nt, len(parts), " ".join(("~" if (not p and not nt and j > 0 and rng.random() < 0.6) else hx(p)) for j, p in enumerate(parts))))
            ops.append("VF %d %d 0 1 %s" % (padded, len(b), hx(b)))
    elif kind == "split-exhaustive":
        # every split of the first k <= 9 bytes (the pre-check only looks at bytes 0, 2, 3), the rest in one more buffer
        m = valid_msg(rng, compat, flags, nattr=rng.randrange(0, 3)).raw()
        b = m if rng.random() < 0.6 else mutate(rng, m)
        if rng.random() < 0.3:
            b = b[:rng.randrange(1, 13)]
        k = min(len(b), rng.choice([5, 7, 9]))
        for mask in range(1 << max(0, k - 1)):
            parts, cur = [], bytearray()
            for j in range(k):
                cur.append(b[j])
                if j == k - 1 or (mask >> j) & 1:
                    parts.append(bytes(cur)); cur = bytearray()
            if len(b) > k:
                if rng.random() < 0.5:
                    parts.append(b[k:])
                else:
                    parts[-1] += b[k:]
            if rng.random() < 0.3:
                parts.insert(rng.randrange(len(parts) + 1), b"")
            nt = rng.randrange(2)
            # counted vectors may hold {NULL, 0} placeholder entries ("~") after the first entry (a NULL first buffer means "no data" to
            # the pre-check in either convention); a NULL-terminated vector ends at the first NULL buffer
            ops.append("VF %d %d %d %d %s" % (padded, len(b), nt, len(parts), " ".join(("~" if (not p and not nt and j > 0 and rng.random() < 0.6) else hx(p)) for j, p in enumerate(parts))))
    elif kind in ("build", "roundtrip"):
        cap = rng.choice([0, 1, 19, 20, 21, 23, 24, 25, 27, 28, 32, 44, 48, 63, 64, 100, 200, 576, 1280, 2048, rng.randrange(0, 2049)])
        user = bytes(rng.choice(b"abcdef:") for _ in range(rng.choice(ULEN)))
        key = bytes(rng.choice(b"pqrstu") for _ in range(rng.randrange(1, 9)))
        if rng.random() < 0.25:
            if rng.random() < 0.4:
                ops.append("SW %s" % hx(b"nice-verif"[:rng.randrange(1, 11)]))
            else:
                # well-formed UTF-8 with multi-byte characters, around the 128-CHARACTER limit of stun_message_append_software (bytes != characters)
                chars = ["a", "Z", "-", "\u00e9", "\u00fc", "\u4e2d", "\u20ac", "\U0001f600"]
                nchar = rng.choice([1, 2, 7, 60, 127, 128, 129, 130, 200, rng.randrange(1, 260)])
                w = [1, 1, 1, 2, 2, 2, 2, 1] if rng.random() < 0.7 else [6, 6, 6, 1, 0, 0, 0, 0]
                ops.append("SW %s" % hx("".join(rng.choices(chars, w, k=nchar)).encode("utf-8")))
        ops.append("%s %d %d %s" % (rng.choice(["IR", "IR", "II"]), rng.choice([1, 3, 4, 8, 9]), cap, hx(rand_txid(rng))))
        napp = rng.randrange(0, 25) if kind == "build" else rng.randrange(0, 6)
        if kind == "roundtrip":
            ops.append("AB 6 %s" % hx(user))
            if flags & F_LONG:
                ops.append("AB 14 %s" % hx(b"realm")); ops.append("AB 15 %s" % hx(b"nonce"))
        for _ in range(napp):
            t, v = rand_attr(rng)
            if kind == "roundtrip" and t in (A_USERNAME, A_MI, A_FPR, A_REALM, A_NONCE) or (kind == "roundtrip" and t < 0x8000 and t not in KNOWN):
                continue
            r = rng.random()
            if r < 0.5:
                ops.append("AB %x %s" % (t, hx(v)))
            elif r < 0.6:
                ops.append("A32 %x %d" % (t, rng.randrange(1 << 32)))
            elif r < 0.7:
                ops.append("A64 %x %d" % (t, rng.randrange(1 << 64)))
            elif r < 0.75:
                ops.append("AF %x" % t)
            elif r < 0.85:
                fam = rng.choice([1, 2, 1, 3])
                ops.append("%s %x %d %d %s" % (rng.choice(["AA", "AX"]), rng.choice([1, 0x20, 0x12]), fam, rng.randrange(65536),
                                               hx(bytes(rng.randrange(256) for _ in range(16 if fam == 2 else 4)))))
            else:
                ops.append("AE %d" % rng.choice([300, 400, 401, 403, 420, 437, 438, 487, 500, 508, 699, 123]))
        kk = key if kind == "roundtrip" else rng.choice([None, key, b""])
        ops.append("F %s" % ("n" if kk is None else "e" if kk == b"" else hx(kk)))
        ops.append("V %s %x @" % (vtable([(user, key)]) if rng.random() < 0.9 else "n", rng.randrange(1, 0x30)))
    elif kind == "auth":
        user = bytes(rng.choice(b"abcdef:") for _ in range(rng.choice(ULEN)))
        key = bytes(rng.choice(b"pqrstu") for _ in range(rng.randrange(1, 9)))
        realm = b"example.org" if flags & F_LONG or rng.random() < 0.2 else None
        if flags & F_LONG and rng.random() < 0.3:
            # quoting corner cases of the long-term credential trimming (priv_trim_var)
            realm = rng.choice([b'"', b'""', b'"""', b'""""', b'"r"', b'"realm', b'realm"', b'"' * 7])
            if rng.random() < 0.5:
                user = rng.choice([b'"', b'""', b'"""', b'"u"', b'"' * 5, b'"ab:cd"'])
        cls = rng.choice([0, 0, 0, 1])
        quoty = realm is not None and realm.startswith(b'"')
        m = valid_msg(rng, compat, flags, cls=cls, method=1, key=key, user=user, realm=realm, nattr=rng.randrange(0, 3),
                      padbyte=0x22 if quoty and rng.random() < 0.6 else 0)      # padding made of quote characters after a quoted value
        b = m.raw()
        r = rng.random()
        table = [(user, key)]
        if r < 0.35:
            pass
        elif r < 0.6:
            b = mutate(rng, b)
        elif r < 0.7:
            table = [(user, key + b"x")]
        elif r < 0.8:
            # MESSAGE-INTEGRITY of the wrong length (0, 4, 19, 21, 24) as the last attribute before the fingerprint
            m2 = valid_msg(rng, compat, flags, cls=cls, method=1, key=None, user=user, realm=realm, nattr=0, fpr=False)
            m2.add(A_MI, bytes(rng.choice([0, 4, 19, 21, 24])))
            if compat in (1, 2) and flags & F_FPR and rng.random() < 0.7:
                m2.fpr()
            b = m2.raw()
        elif r < 0.9:
            m2 = valid_msg(rng, compat, flags, cls=cls, method=1, key=None, user=user if rng.random() < 0.5 else None, realm=realm, nattr=1)
            b = m2.raw()
        else:
            table = []
        ops.append("V %s %x %s" % (vtable(table) if rng.random() < 0.95 else "n", rng.randrange(1, 0x30), hx(b)))
        if rng.random() < 0.5:
            cap = rng.choice([0, 10, 20, 24, 40, 60, 64, 80, 100, 1280, rng.randrange(0, 1301)])
            if rng.random() < 0.5:
                ops.append("IS %d" % cap)
                ops.append("AX 20 1 %d %s" % (rng.randrange(65536), hx(bytes(rng.randrange(256) for _ in range(4)))))
                ops.append("AB 6 %s" % hx(user))
            else:
                ops.append("IE %d %d" % (cap, rng.choice([400, 401, 420, 487, 500])))
            ops.append("F n")
            ops.append("V %s 1 @" % vtable(table))
    elif kind == "resp":
        key = bytes(rng.choice(b"pqrstu") for _ in range(rng.randrange(1, 9)))
        user = b"ab:cd"
        nreq = rng.randrange(1, 6)
        txs = []
        for _ in range(nreq):
            tx = rand_txid(rng); meth = rng.choice([1, 3, 4])
            ops.append("IR %d 300 %s" % (meth, hx(tx)))
            ops.append("AB 6 %s" % hx(user))
            if flags & F_LONG:
                ops.append("AB 14 %s" % hx(rng.choice([b"realm", b"realm", b"realm2"]))); ops.append("AB 15 %s" % hx(b"nonce"))
            usekey = rng.random() < 0.85
            ops.append("F %s" % (hx(key) if usekey else "n"))
            txs.append((tx, meth, key if usekey else None))
        for _ in range(rng.randrange(1, 5)):
            tx, meth, k = rng.choice(txs)
            r = rng.random()
            cls = rng.choice([2, 2, 3])
            if r < 0.15:
                tx = rand_txid(rng)
            elif r < 0.3:
                tx = bytes(x ^ 0x5a for x in tx[:4]) + tx[4:]        # differs from an outstanding id in the first four bytes only
            elif r < 0.36:
                tx = tx[:15] + bytes([tx[15] ^ 1])
            if r > 0.9:
                meth = meth + 1
            m = Msg(cls, meth, tx, compat, flags)
            if cls == 3 and rng.random() < 0.12:
                pass        # an error-class answer WITHOUT an ERROR-CODE attribute
            elif cls == 3:
                code = rng.choice([300, 400, 401, 403, 420, 438, 487, 500])
                # the five high bits of the class octet are reserved (RFC 5389 15.6): receivers ignore them
                m.add(A_ERR, bytes([0, 0, (code // 100) | rng.choice([0, 0, 0x08, 0x80, 0xf8, rng.randrange(32) << 3]), code % 100]) + b"x")
            else:
                m.add(A_XMAP, bytes([0, 1, 1, 2, 3, 4, 5, 6]))
            kk = k if rng.random() < 0.8 else (None if rng.random() < 0.5 else b"wrong")
            if kk is not None:
                if flags & F_LONG:
                    kk = hashlib.md5(user + b":realm:" + kk).digest()
                m.mi(kk)
            if compat in (1, 2) and flags & F_FPR:
                m.fpr(typo=rng.random() < 0.3)      # sometimes the WLM 2009 checksum: differs from the CRC-32 for about one message in seven
            b = m.raw()
            ops.append("V - 1 %s" % hx(b))
            if rng.random() < 0.6:
                ops.append("V - 1 %s" % hx(b))      # replay
        if rng.random() < 0.3:
            ops.append("FG %s" % hx((COOKIE + txs[0][0][4:]) if compat in (1, 2) else txs[0][0]))
        if rng.random() < 0.5:
            # requests answered / given up in any order: a slot freed in front of a transaction still in flight, then that transaction is
            # forgotten (what conncheck.c, discovery.c and udp-turn.c do on timeout) and its late answer must be unmatched
            order = list(range(len(txs))); rng.shuffle(order)
            for j in order[:rng.randrange(1, len(txs) + 1)]:
                tx, meth, k = txs[j]
                m = Msg(2, meth, tx, compat, flags)
                m.add(A_XMAP, bytes([0, 1, 1, 2, 3, 4, 5, 6]))
                if k is not None:
                    m.mi(hashlib.md5(user + b":realm:" + k).digest() if flags & F_LONG else k)
                if compat in (1, 2) and flags & F_FPR:
                    m.fpr()
                b = m.raw()
                fid = (COOKIE + tx[4:]) if compat in (1, 2) else tx
                if rng.random() < 0.5:
                    ops.append("FG %s" % hx(fid))
                ops.append("V - 1 %s" % hx(b))
                if rng.random() < 0.4:
                    ops.append("FG %s" % hx(fid))
                    ops.append("V - 1 %s" % hx(b))
    elif kind == "hostile":
        n = rng.choice([0, 1, 3, 4, 19, 20, 21, 24, 28, 40, 44, 48, 100, rng.randrange(0, 300)])
        b = bytearray(rng.randrange(256) for _ in range(n))
        if n >= 4 and rng.random() < 0.85:
            b[0] &= 0x3f
            b[0:2] = struct.pack(">H", msg_type(rng.randrange(4), rng.choice([1, 3, 4, 9])))
            b[2:4] = struct.pack(">H", max(0, n - 20) if rng.random() < 0.8 else rng.randrange(65536))
        if n >= 8 and rng.random() < 0.7:
            b[4:8] = COOKIE
        # make attributes tile with hostile lengths
        if n >= 24 and rng.random() < 0.7:
            off = 20
            while off + 4 <= n:
                rem = n - off - 4
                al = rng.choice([0, rem, rem & ~3, min(rem, 4), min(rem, 20), min(rem, 1)])
                b[off:off + 2] = struct.pack(">H", rng.choice([A_MI, A_FPR, A_USERNAME, A_ERR, A_REALM, A_NONCE, A_XMAP, 1, A_PRIO, 0x8070, rng.randrange(65536)]))
                b[off + 2:off + 4] = struct.pack(">H", al)
                off += 4 + al + (0 if flags & F_NOALIGN else pad4(al))
        ops.append("V %s %x %s" % (rng.choice(["n", "-", vtable([(b"", b"pw")]), vtable([(b"ab", b"pw"), (b"", b"")])]), rng.randrange(1, 0x30), hx(bytes(b))))
    return head + " " + " ; ".join(ops), kind


# ------------------------------------------------------------------ independent specification (python)
def spec_validate_len(b, padded):
    """-1 invalid / 0 incomplete / L, straight from the property statement"""
    if len(b) < 1 or b[0] >> 6:
        return -1
    if len(b) < 4:
        return 0
    L = 20 + struct.unpack(">H", b[2:4])[0]
    if padded and L % 4:
        return -1
    if len(b) < L:
        return 0
    return L if parse(b[:L], not padded) is not None else -1


def spec_fast(b, padded):
    if len(b) < 1 or b[0] >> 6:
        return -1
    if len(b) < 4:
        return 0
    L = 20 + struct.unpack(">H", b[2:4])[0]
    if padded and L % 4:
        return -1
    return 0 if len(b) < L else L


def spec_find(attrs, ty, compat):
    """first attribute of type ty found by the independent parser, honouring the MI / FPR ordering rule"""
    if compat == 3:
        ty = {A_REALM: A_NONCE, A_NONCE: A_REALM}.get(ty, ty)
    for t, v, off in attrs:
        if t == ty:
            return off, len(v)
        if t == A_MI and ty != A_FPR:
            return None
        if t == A_FPR:
            return None
    return None


def toks(out):
    """split an output line into per-op token groups"""
    ws = out.split()
    groups, cur = [], None
    in_dump = False          # inside the message dump that follows a successful "v=": it has its own f= / a= / ... tokens and ends with K=
    for w in ws[1:]:
        if in_dump:
            cur.append(w)
            if w.startswith("K="):
                in_dump = False
            continue
        if w.split("=")[0] in ("vf", "vl", "v", "i", "a", "f", "fg") or w in ("sw", "FAULT") or w.startswith("?"):
            cur = [w]; groups.append(cur)
        elif cur is not None:
            cur.append(w)
            if cur[0].startswith("v=") and len(cur) == 3 and re.match(r"^c\d+$", w):
                in_dump = True
    return groups


def parse_program(line):
    t = line.split()
    ops, cur = [], []
    for w in t[4:]:
        if w == ";":
            ops.append(cur); cur = []
        else:
            cur.append(w)
    if cur:
        ops.append(cur)
    return int(t[1]), int(t[2]), ops


def unhx(s):
    return b"" if s in ("-", "~") else bytes.fromhex(s)


def expected_mi(buf, attrs, mi_off, compat, key):
    """HMAC-SHA1 of the RFC-defined prefix for the MESSAGE-INTEGRITY attribute whose value starts at mi_off"""
    if compat == 2:
        fake = len(buf) - 20
    else:
        fake = mi_off + 20 - 20
    m = buf[0:2] + struct.pack(">H", fake % 65536) + buf[4:mi_off - 4]
    ln = mi_off + 20
    if compat in (0, 2, 3) and (ln - 24) % 64:
        m += bytes(64 - (ln - 24) % 64)
    return hmac.new(key, m, hashlib.sha1).digest()


def software_cut(b):
    """RFC 5389 section 15.10: fewer than 128 characters (UTF-8) - whole characters of the configured string (well-formed input)."""
    i = n = 0
    while i < len(b) and n < 128:
        c = b[i]
        i += 1 if c < 0xc0 else 2 if c < 0xe0 else 3 if c < 0xf0 else 4
        n += 1
    return b[:i]


def oracle(line, out, want=("C04", "C05", "C06", "C07")):
    """Implementation-side oracles.  Returns None or a description of the violated clause."""
    if "FAULT" in out:
        return None      # model-only token; the implementation never prints it
    compat, flags, ops = parse_program(line)
    groups = toks(out)
    if len(groups) != len(ops):
        return None
    padded = not (flags & F_NOALIGN)
    cur_cap, cur_len, appended, outstanding, last_built = None, 0, [], {}, None
    reserved_appended = False
    built_by = None
    validated = {}
    software, user_software = None, False
    for op, g in zip(ops, groups):
        name = op[0]
        if name == "VL" and "C06" in want:
            b = unhx(op[2]); got = int(g[0].split("=")[1]); exp = spec_validate_len(b, op[1] != "0")
            if got != exp:
                return "length check says %d, the RFC grammar says %d for %s" % (got, exp, op[2][:80])
        elif name == "VF" and "C06" in want:
            n = int(op[4]); parts = [unhx(x) for x in op[5:5 + n]]; b = b"".join(parts)
            if len(b) == int(op[2]):
                got = int(g[0].split("=")[1]); exp = spec_fast(b, op[1] != "0")
                if got != exp:
                    return "vectored pre-check says %d for split %s but %d for the contiguous bytes" % (got, [len(p) for p in parts], exp)
        elif name == "FG" and "C04" in want:
            fid = unhx(op[1])
            ks = [k for k in outstanding if k[0] == fid and outstanding[k] > 0]
            if ks:
                outstanding[ks[0]] -= 1       # given up: a late answer must from now on be unmatched (the clause on accepted responses below)
        elif name == "SW":
            software = unhx(op[1]).split(b"\0")[0]
        elif name in ("IR", "II", "IS", "IE"):
            user_software = False
            reserved_appended = False
            built_by = name
            cur_cap = int(op[2] if name in ("IR", "II") else op[1]); appended = []; cur_len = None   # init may add SOFTWARE / ERROR-CODE
            if g[0] == "i=1" and cur_cap < 20 and "C07" in want:
                return "message initialised in a %d-byte buffer" % cur_cap
        elif name[0] == "A" and g[0] != "a=x":
            r, ln = g[0][2:].split(":")
            if name in ("AB", "A32", "A64", "AF") and int(op[1], 16) in (A_MI, A_FPR):
                reserved_appended = True
            if name in ("AB", "A32", "A64", "AF") and int(op[1], 16) == 0x8022:
                user_software = True
            if "C07" in want and cur_cap is not None:
                if int(ln) > cur_cap:
                    return "after append the message length %s exceeds the %d-byte buffer" % (ln, cur_cap)
                if int(r) != 0 and cur_len is not None and int(ln) != cur_len:
                    return "append reported failure (%s) but the message length changed %d -> %s" % (r, cur_len, ln)
            cur_len = int(ln)
        elif name == "F" and not g[0].startswith("f=x"):
            n, hexs, nv = g[0][2:].split(":")
            n = int(n); b = unhx(hexs)
            if "C07" in want and cur_cap is not None and n > cur_cap:
                return "finish returned %d for a %d-byte buffer" % (n, cur_cap)
            if n and "C07" in want:
                p = parse(b, not padded)
                if p is None:
                    return "finished message is not well-formed per the independent parser: %s" % hexs[:120]
            if n and "C07" in want and software is not None and not user_software and compat in (1, 2):
                p = parse(b, not padded)
                if p and p[3] and p[3][0][0] == 0x8022:
                    exp = software_cut(software)
                    if bytes(p[3][0][1]) != exp:
                        return ("SOFTWARE attribute of the finished message holds %d bytes (%s...), the configured string cut to at most 128 whole characters is %d bytes (%s...)"
                                % (len(p[3][0][1]), bytes(p[3][0][1]).hex()[:40], len(exp), exp.hex()[:40]))
            if n and ("C04" in want or "C07" in want) and op[1] not in ("n", "e") and not reserved_appended and built_by == "IR":
                # a request the library finished with a key carries the MESSAGE-INTEGRITY that key (long-term: md5 of ITS OWN
                # USERNAME:REALM:password) gives over the RFC prefix
                p = parse(b, not padded)
                if p:
                    mi = spec_find(p[3], A_MI, compat); u = spec_find(p[3], A_USERNAME, compat); r_ = spec_find(p[3], A_REALM, compat)
                    key = unhx(op[1])
                    ok_to_check = mi is not None and mi[1] == 20 and len(key) > 0
                    if ok_to_check and flags & F_LONG:
                        if u and r_ and [t for t, _v, _o in p[3]].count(A_REALM) == 1 and [t for t, _v, _o in p[3]].count(A_USERNAME) == 1:
                            tr = lambda x: x.lstrip(b'"').rstrip(b'"\x00')
                            key = hashlib.md5(tr(b[u[0]:u[0] + u[1]]) + b":" + tr(b[r_[0]:r_[0] + r_[1]]) + b":" + tr(key)).digest()
                        else:
                            ok_to_check = False
                    if ok_to_check and b[mi[0]:mi[0] + 20] != expected_mi(b, p[3], mi[0], compat, key):
                        return "the request the library finished is not signed with the key of its own USERNAME/REALM (MESSAGE-INTEGRITY differs from HMAC-SHA1 over the RFC prefix)"
            if n:
                last_built = (b, op[1])
                p = parse(b, not padded)
                if p and p[0] == 0:
                    outstanding[(bytes(p[2]), p[1])] = outstanding.get((bytes(p[2]), p[1]), 0) + 1
        elif name == "V":
            st = int(g[0].split("=")[1])
            b = last_built[0] if op[3] == "@" and last_built else unhx(op[3]) if op[3] != "@" else b""
            p = parse(b, not padded)
            d = {}
            # dump layout: v= n<k> c<cls> m<meth> k<cookie> then one "<hex type>=<off>:<len>|n" per dumped type (DUMP_TYPES + the extra one),
            # then the typed accessors e= p= g= f= s= a= x= y= K=  (their one-letter keys may collide with hex types such as 0xa, 0xe, 0xf)
            ntypes = len(DUMP_TYPES) + 1
            for w in g[5:5 + ntypes]:
                if "=" in w:
                    k, v = w.split("=", 1); d[k] = v
            if "C05" in want and st not in (1, 2):
                for k, v in d.items():
                    if ":" in v and k not in ("e", "p", "g", "s", "a", "x", "K") and v != "n":
                        off, ln = map(int, v.split(":"))
                        if off + ln > len(b) or off < 20:
                            return "accessor returned extent %d+%d outside the %d-byte packet" % (off, ln, len(b))
            if "C06" in want and st not in (1, 2) and p is not None:
                extra = int(op[2], 16)
                for t in DUMP_TYPES + [extra]:
                    exp = spec_find(p[3], t, compat)
                    got = d.get("%x" % t)
                    gots = None if got in (None, "n") else tuple(map(int, got.split(":")))
                    if gots != exp:
                        return "lookup of attribute 0x%x returned %s, independent parser says %s" % (t, gots, exp)
            if "C06" in want and st not in (1, 2) and p is not None:
                # ERROR-CODE decoding (RFC 5389 15.6): class = low three bits of the third octet (the other five are reserved and ignored), number 0..99
                et = next((w for w in g[5 + ntypes:] if w.startswith("e=")), None)
                ea_ = spec_find(p[3], A_ERR, compat)
                if et is not None:
                    if ea_ is None:
                        want_e = "1:-1"
                    elif ea_[1] < 4:
                        want_e = "2:-1"
                    else:
                        c_, n_ = b[ea_[0] + 2] & 7, b[ea_[0] + 3]
                        want_e = "2:-1" if (c_ < 3 or c_ > 6 or n_ > 99) else "0:%d" % (c_ * 100 + n_)
                    if et[2:] != want_e:
                        return "stun_message_find_error returns %s for ERROR-CODE value %s, the RFC decoding gives %s" % (
                            et[2:], b[ea_[0]:ea_[0] + min(ea_[1], 6)].hex() if ea_ else "(absent)", want_e)
            if "C06" in want and st not in (1, 2) and p is None:
                return "validation went past the length check (status %d) for bytes that are not well-formed" % st
            cls = p[0] if p else None
            if st == 9 and p is not None and ("C04" in want or "C05" in want):
                ea = [v for t_, v, _o in p[3] if t_ == A_ERR]
                code = (ea[0][2] & 7) * 100 + ea[0][3] if ea and len(ea[0]) >= 4 else None
                if cls != 3 or code != 403:
                    return "validation reported FORBIDDEN for a message whose ERROR-CODE is %s (class %s): the status must come from a 403 error answer" % (code, cls)
            if st == 0 and p is not None and "C04" in want:
                creds = (flags & (F_SHORT | F_LONG)) and not (flags & F_IGN)
                mi = spec_find(p[3], A_MI, compat)
                table = {}
                if op[1] not in ("n", "-"):
                    for e in op[1].split(","):
                        u, pw = e.split(":"); table.setdefault(unhx(u), unhx(pw))
                if cls in (2, 3):
                    key_ = (bytes(p[2]), p[1])
                    if outstanding.get(key_, 0) <= 0:
                        return "response accepted with no outstanding request of the same transaction id and method (or twice)"
                    outstanding[key_] -= 1
                if compat in (1, 2) and flags & F_FPR:
                    f = spec_find(p[3], A_FPR, compat)
                    if not f or f[1] != 4:
                        return "SUCCESS under USE_FINGERPRINT without a 4-byte FINGERPRINT"
                    m = b[0:2] + struct.pack(">H", (f[0] + 4 - 20) % 65536) + b[4:f[0] - 4]
                    exp = (zlib.crc32(m) ^ 0x5354554e) & 0xffffffff
                    got = struct.unpack(">I", b[f[0]:f[0] + 4])[0]
                    if got != exp and compat != 2:
                        return "SUCCESS with FINGERPRINT %08x, CRC-32 of the preceding bytes xor 0x5354554e is %08x" % (got, exp)
                if creds and cls == 0 or (creds and cls == 1 and not (flags & (F_LONG | F_NOIND))):
                    u = spec_find(p[3], A_USERNAME, compat)
                    if not mi or not u:
                        return "request validated under credentials without USERNAME and MESSAGE-INTEGRITY"
                    uname = b[u[0]:u[0] + u[1]]
                    if uname not in table:
                        return "request validated although no key is bound to its USERNAME"
                    key = table[uname]
                    if len(key) > 0 and mi[1] != 20:      # an empty password disables the integrity check (stunagent.c: key_len > 0), as in the Coq statement
                        return "request validated with a %d-byte MESSAGE-INTEGRITY" % mi[1]
                    if len(key) > 0:
                        if flags & F_LONG:
                            r_ = spec_find(p[3], A_REALM, compat)
                            if r_:
                                tr = lambda x: x.lstrip(b'"').rstrip(b'"\x00')
                                key = hashlib.md5(tr(uname) + b":" + tr(b[r_[0]:r_[0] + r_[1]]) + b":" + tr(key)).digest()
                        exp = expected_mi(b, p[3], mi[0], compat, key)
                        if b[mi[0]:mi[0] + 20] != exp:
                            return "request validated although MESSAGE-INTEGRITY is not HMAC-SHA1 of the RFC prefix under the key of its USERNAME"
            # (a program that appends MESSAGE-INTEGRITY / FINGERPRINT itself misuses the builder: finish adds its own, validation reads the first)
            if op[3] == "@" and last_built and "C07" in want and last_built[1] not in ("n",) and st in (1, 2, 3) and not reserved_appended:
                return "a message the library finished itself does not pass its own validation (status %d)" % st
    return None


# ------------------------------------------------------------------ shared check body
COQ_TARGETS_COMMON = ["Stun/Extract_Stun.vo", "Stun/StunUtilsProofs.vo"]
TRUSTED = [
    "hand-written models coq/Stun/StunModel.v + StunAgentModel.v (message grammar, lookup, builder, validate/finish/init) tied to "
    "stun/*.c by differential execution: model extracted with ExtrOcamlBasic only (Z inductive) vs harness/stun_h.c compiled from "
    "/repo's working tree under ASan+UBSan with exactly-sized heap buffers (empty buffers are one-past-the-end pointers)",
    "Gallina specifications of SHA-1 / HMAC-SHA1 / MD5 / CRC-32 (coq/Crypto, RFC 3174/2202/1321 vectors as Examples); gnutls is compared "
    "with them on every HMAC/MD5 the correspondence computes; cryptographic unforgeability is outside every theorem",
    "tables regenerated from source on every run: crc32_tab[] + typo constants (Gen/Crc32Tab.v), stun_strerror (Gen/StunErrTab.v), "
    "stun_padding/stun_align via tools/c2v.py (Gen/StunUtils.v)",
    "independent python encoder/parser/HMAC/CRC (props/stun_gen.py, hashlib/zlib) used by generators and implementation-side oracles",
    "not modelled: stun_debug output, software strings with non-ASCII lead bytes (next_utf8_char may skip the terminator), sockaddr "
    "handling of families other than AF_INET/AF_INET6, usage-level functions (bind/ice/turn process+create) which are only executed "
    "under ASan in the harness of C05"]


def run_stun(chk, props_v, kinds, want, nq, nt, what):
    gi, err = pregen()
    if gi is None:
        chk.broken_obligation("translator/table-extractor", err)
    chk.prove([props_v], COQ_TARGETS_COMMON)
    model, o = build_model()
    if not model:
        chk.broken_obligation("extract-build", o[-2000:])
    impl, o = build_impl()
    if not impl:
        chk.broken_obligation("impl-build", o[-3000:])
    if impl:
        n = nq if chk.tier == "quick" else nt
        cases = corpus_cases() + [gen_case(chk.rng, i, kinds) for i in range(n)]
        orc = lambda line, out: oracle(line, out, want)
        vlib.correspond(chk, cases, model or impl, impl, oracle=orc, what=what if model else what + "-oracle-only",
                        nontrivial=lambda l, o_: o_ is not None and ("v=0" in o_ or "f=" in o_ or "vl=" in o_ or "vf=" in o_ or " v=" in o_))


def corpus_cases():
    """minimised triggers of the defects found so far (they run first)"""
    k = KNOWN_HEX
    return [
        ("k0 0 1 %s IR 1 25 000102030405060708090a0b0c0d0e0f ; AB 6 61 ; AB 6 6162 ; F 7077" % k, "corpus"),     # append padding overrun
        ("k1 1 1 %s V 61626364:7077 1 000100102112a442000102030405060708090a0b000600046162636400080000" % k, "corpus"),   # zero-length MI
        ("k2 1 2 %s V :7077 1 000100282112a442000102030405060708090a0b00060000001400000015000161000000000800140000000000000000000000000000000000000000" % k, "corpus"),  # empty USERNAME/REALM, long-term
        ("k3 1 0 %s VF 1 24 0 3 000100 - 042112a442000102030405060708090a0b80220000 ; VF 1 24 0 3 - 000100 042112a442000102030405060708090a0b80220000" % k, "corpus"),  # empty buffers
        ("k4 1 5 %s IR 1 0 000102030405060708090a0b0c0d0e0f ; F n ; IR 1 19 000102030405060708090a0b0c0d0e0f ; A32 24 1 ; F 7077" % k, "corpus"),  # header does not fit
    ]


def replay_stun(chk, path):
    import json
    r = json.load(open(path))["replay"]
    impl, o = build_impl()
    rc, so, se = vlib.run_lines(impl, r.get("case", "") + "\n")
    print("impl:", so.strip()[:2000], "\nstderr:", se[-1500:], "\noracle:", oracle(r.get("case", ""), so.strip()))
    return 0
