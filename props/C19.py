"""C19 — STUN retransmission timers follow the configured schedule exactly."""
import vlib, sim_common as sc

META = dict(
    text="Coq theorems (Props/Properties_C19.v) over an executable model of stun_timer_start/remainder/refresh prove, for all T in "
         "1..10000, N in 0..16 and every non-decreasing microsecond-resolution polling pattern, the exact retransmission count, "
         "the doubling/halving schedule, the expiry window and the remainder bound; the model is tied to stun/usages/timer.c "
         "on every run by differential execution under an interposed clock plus an independent implementation-side oracle",
    note="trusted: Coq kernel, extraction (ExtrOcamlBasic only), the hand-written model (tied by sampling, not proof), the harness "
         "with interposed clock_gettime; the agent-level clause (black-holed pair abandoned after N transmissions) is outside the theorem: it is "
         "validated on simulated sessions (reliable and unreliable agents, N in 1..5, every path black-holed; transmissions per transaction counted on the wire)",
    technique="Coq proof over executable model + extracted-model/implementation differential correspondence")

COQ_TARGETS = ["Props/Properties_C19.vo", "Timer/Extract_Timer.vo"]

FINISH = dict(
    level="proof",
    trusted=["hand-written model coq/Timer/TimerModel.v of stun/usages/timer.c, tied to the code by differential "
             "execution (extracted OCaml via ExtrOcamlBasic only; Z kept as inductive) against the real timer.c with "
             "an interposed clock_gettime",
             "OCaml 4.13.1, gcc 12 + ASan/UBSan, the python generator/oracle in props/C19.py",
             "not modelled: the Windows clock branch and the gettimeofday fallback of stun_gettime; "
             "agent-level clause (black-holed pair abandoned after the configured count, RTO doubling from max(500 ms, Ta * pairs)) is validated by "
             "simulator runs (sim_common.gen_blackhole / oracle_blackhole), not proved"],
    rule="case = (T, N, start instant, non-decreasing poll instants at microsecond resolution); generators: late polls, "
         "polls straddling each deadline by -1001..+1 us, dense early polling, huge gaps, usec carry boundaries; "
         "non-trivial = at least one poll expires the running wait; distinct by canonical case text",
    assumptions=["clock is monotone and tv_usec in 0..999999 (what clock_gettime returns)",
                 "theorems carry T in 1..10000, N in 0..16 (the property's quantifier); outside it unsigned wrap applies"])


def gen_case(rng, i):
    kind = rng.choice(["late", "straddle", "dense", "mixed", "carry", "big"])
    N = rng.randrange(0, 17)
    T = rng.choice([1, 2, 3, 7, 50, 100, 200, 500, 999, 1000, 1001, 4999, 10000, rng.randrange(1, 10001), rng.randrange(1, 10001)])
    if kind == "big":
        T = rng.choice([10000, 9999, 65535, 100000]); N = rng.choice([16, 17, 20, 0])
    reliable = rng.random() < 0.12        # stun_timer_start_reliable (STUN over TCP / TURN-TCP): the N = 0 schedule, a single transmission
    if reliable:
        N = 0
    s0 = rng.choice([0, 1, 5, 1000, 86400 * 365, rng.randrange(0, 4 * 10 ** 9)])
    u0 = rng.choice([0, 1, 999, 1000, 500000, 999000, 999001, 999999, rng.randrange(0, 10 ** 6)])
    if kind == "carry":
        # make now.usec + (T%1000)*1000 land on / around 1000000 exactly
        u0 = (1000000 - (T % 1000) * 1000 + rng.choice([-1, 0, 1, 0])) % 1000000
    now = s0 * 10 ** 6 + u0
    polls = []
    # simulate the documented schedule to aim polls at deadlines (generator only; the oracle does not use this)
    delay, retr, dl = T, 1, now + T * 1000
    n = rng.randrange(1, 40)
    for _ in range(n):
        if kind == "late":
            p = dl + rng.choice([0, 1, 999, 1000, 10 ** 6, rng.randrange(0, 10 ** 7), rng.randrange(0, 10 ** 9)])
        elif kind in ("straddle", "carry"):
            p = dl + rng.choice([-1001, -1000, -999, -1, 0, 1, -500, rng.randrange(-2000, 2)])
        elif kind == "dense":
            p = now + rng.randrange(0, max(2, delay * 1000 // 3))
        else:
            p = rng.choice([dl + rng.randrange(-3000, 3000), now + rng.randrange(0, 2 * delay * 1000 + 2), dl])
        p = max(p, now)
        polls.append(p)
        now = p
        if p > dl - 1000 and retr < max(N, 1):
            delay = delay // 2 if retr == N - 1 else delay * 2
            retr += 1
            dl = p + delay * 1000
    toks = ["c%d" % i, str(T), "R" if reliable else str(N), str(s0), str(u0)]
    for p in polls:
        toks += [str(p // 10 ** 6), str(p % 10 ** 6)]
    return " ".join(toks), kind + ("-reliable" if reliable else "")


def oracle(line, out):
    """The property, checked on the implementation's output alone."""
    t = line.split()
    T, N = int(t[1]), 0 if t[2] == "R" else int(t[2])
    if not (1 <= T <= 10000 and 0 <= N <= 16):
        return None
    start = int(t[3]) * 10 ** 6 + int(t[4])
    ps = [int(t[5 + 2 * k]) * 10 ** 6 + int(t[6 + 2 * k]) for k in range((len(t) - 5) // 2)]
    rs = out.split()[1:]
    if len(rs) != len(ps):
        return "wrong number of results"
    nmax = max(N, 1)
    nre, seen_to, wait, dl = 0, False, T, start + T * 1000
    waits = [T]
    for p, r in zip(ps, rs):
        rem, ret, delay, retr = r.split(":")
        rem, delay, retr = int(rem), int(delay), int(retr)
        if seen_to and ret != "T":
            return "result %s after TIMEOUT" % ret
        if rem > wait:
            return "remainder %d exceeds the running wait %d" % (rem, wait)
        if p >= dl and rem != 0:
            return "remainder %d not zero at/after the deadline" % rem
        if p >= dl and ret == "S":
            return "SUCCESS at/after the deadline"
        if ret != "S" and p <= dl - 1000:
            return "expired %d us early" % (dl - p)
        if ret == "R":
            nre += 1
            if nre > nmax - 1:
                return "more than max(N,1)-1 = %d retransmissions" % (nmax - 1)
            exp = wait // 2 if nre == nmax - 1 and N >= 2 and nre + 1 == N else wait * 2
            if delay != exp:
                return "wait after retransmission %d is %d, schedule says %d" % (nre, delay, exp)
            wait, dl = delay, p + delay * 1000
        elif ret == "T":
            if nre != nmax - 1:
                return "TIMEOUT after %d retransmissions, expected %d" % (nre, nmax - 1)
            seen_to = True
    return None


def nontrivial(line, out):
    return out is not None and (":R:" in out or ":T:" in out)


def prebuild():
    m, o = vlib.ocaml_build("timer_model", "timer_model", ["zutil_z.ml.in", "timer_driver.ml"])
    if m:
        m, o = sc.build_sim()
    return None if m else o


def run(chk):
    ok = chk.prove(["Props/Properties_C19.v"], ["Timer/Extract_Timer.vo"])
    model, o = vlib.ocaml_build("timer_model", "timer_model", ["zutil_z.ml.in", "timer_driver.ml"])
    if not model:
        chk.broken_obligation("extract-build", o[-2000:])
    impl, o = vlib.cc("timer_h", ["timer_h.c"], ["stun/usages/timer.c"], libs=())
    if not impl:
        chk.broken_obligation("impl-build", o[-3000:])
    if model and impl:
        n = 4000 if chk.tier == "quick" else 120000
        corpus = [("k0 100 3 5 999500 6 98499 6 99500 6 299500 6 300000 6 398499 9 100000", "corpus"),
                  ("k1 1000 0 0 0 0 999999 1 0 5 0", "corpus"), ("k2 1 16 10 999999 11 0 11 1000 11 1001 11 3000", "corpus"),
                  ("k3 7900 R 5 0 12 899000 12 900000 16 850000 20 0", "corpus"), ("k4 200 R 0 999999 1 199998 1 199999 1 300000 9 0", "corpus")]
        cases = corpus + [gen_case(chk.rng, i) for i in range(n)]
        vlib.correspond(chk, cases, model, impl, oracle=oracle, what="timer", nontrivial=nontrivial)
    # agent level: every connectivity check on a black-holed pair is transmitted exactly stun-max-retransmissions times, on schedule
    n = 300 if chk.tier == "quick" else 15000
    sc.run_sim(chk, [sc.gen_blackhole(chk.rng, i) for i in range(n)], lambda line, evs, meta: sc.oracle_blackhole(evs, meta), "sim-C19", token=" blackhole stun c0 ")
    return chk.finish(**FINISH)


def replay(chk, path):
    import json
    r = json.load(open(path))["replay"]
    if r.get("case", "").startswith("hole"):
        sim, o = sc.build_sim()
        rc, so, se = vlib.run_lines(sim, r["case"] + "\n")
        print("\n".join(l for l in so.split(" | ") if "blackhole" in l)[:8000])
        return 0
    impl, o = vlib.cc("timer_h", ["timer_h.c"], ["stun/usages/timer.c"], libs=())
    rc, so, se = vlib.run_lines(impl, r["case"] + "\n")
    print("impl:", so.strip(), "\noracle:", oracle(r["case"], so.strip()))
    return 0
