"""C07 — the builder is bounded, well-formed and reads back."""
import vlib, stun_common as sc

COQ_TARGETS = ["Props/Properties_C07.vo"] + sc.COQ_TARGETS_COMMON
META = dict(
    text="Coq theorems (Props/Properties_C07.v): stun_message_append on a message under construction either reports no space (message untouched) or returns a buffer of the same capacity, unchanged outside the new attribute and the length field, again a well-formed message under construction; never a Fault (= no write outside the caller's buffer) for every capacity < 2^16 and every sequence of appends; built messages satisfy the independent grammar. Typed read-back and finish->validate round trip are checked by differential execution + python oracle (independent parser, own HMAC/CRC), caps 0..2048, up to 24 appends.",
    note='trusted: Coq kernel; extraction (ExtrOcamlBasic only); the hand-written STUN models, tied to stun/*.c by sampling (differential execution under ASan/UBSan), not by proof; Gallina SHA-1/HMAC/MD5/CRC-32 specifications; gnutls; the python oracle. Read-back equality and the finish/validate round trip are not Coq theorems yet (correspondence + oracle only).',
    technique='Coq invariant proof over builder model + differential correspondence + independent parser oracle')

FINISH = dict(level="proof", trusted=sc.TRUSTED, rule='programs: init request/indication in caps {0,1,19..28,32,44,48,63,64,100,200,576,1280,2048,random}, up to 24 appends of every typed appender with random types/lengths/values, finish with/without key, validate own output; replies (init_response/init_error) in caps 0..1300',
              assumptions=["byte strings shorter than 2^16 (uint16 length arithmetic of stun_message_length wraps beyond)", "bytes are 0..255"])

KINDS = "build,roundtrip,auth".split(",")
pregen = sc.pregen
prebuild = sc.prebuild


def extra(chk):
    # the usage-level request / reply builders (stun/usages/*.c) with output buffers 0..1300, under ASan
    import C05
    C05.extra(chk)


def run(chk):
    sc.run_stun(chk, "Props/Properties_C07.v", KINDS, ("C07",), 2500, 150000, "stun-C07")
    extra(chk)
    return chk.finish(**FINISH)


def replay(chk, path):
    return sc.replay_stun(chk, path)
