(* line protocol of harness/turn_h.c over the extracted model (coq/Turn/TurnModel.v) *)
let hexval c = if c <= '9' then Char.code c - 48 else (Char.code c lor 32) - 87
let zbyte = Array.init 256 z_of_int
let bytes_of_hex s =
  if s = "-" || s = "~" then [] else
  let n = String.length s / 2 in
  let rec go i acc = if i < 0 then acc else go (i - 1) (zbyte.(hexval s.[2 * i] * 16 + hexval s.[2 * i + 1]) :: acc) in
  go (n - 1) []
let hex_of_bytes b =
  match b with [] -> "-" | _ ->
  let buf = Buffer.create 64 in
  List.iter (fun z -> Buffer.add_string buf (Printf.sprintf "%02x" (int_of_z z))) b; Buffer.contents buf
let addr_of_tok t =
  let v6 = t.[0] = '6' in
  let raw = bytes_of_hex (String.sub t 1 (String.length t - 1)) in
  let n = if v6 then 16 else 4 in
  let rec take k l = if k = 0 then [] else match l with x :: r -> x :: take (k - 1) r | [] -> [] in
  let rec drop k l = if k = 0 then l else match l with _ :: r -> drop (k - 1) r | [] -> [] in
  { a6 = v6; aip = take n raw; aport = drop n raw }
let tok_of_addr a = (if a.a6 then "6" else "4") ^ (match a.aip @ a.aport with [] -> "" | l -> hex_of_bytes l)

(* split "X:a:b" *)
let fields s = String.split_on_char ':' s

let expand log t =
  (* hex digits and {TTTT.j} placeholders *)
  let n = String.length t in
  let out = ref [] in
  let i = ref 0 in
  while !i < n && t.[!i] <> '-' do
    if t.[!i] = '{' then begin
      let ty = (hexval t.[!i+1] * 16 + hexval t.[!i+2]), (hexval t.[!i+3] * 16 + hexval t.[!i+4]) in
      let close = String.index_from t !i '}' in
      let j = int_of_string (String.sub t (!i + 6) (close - !i - 6)) in
      i := close + 1;
      let rec pick l j = match l with
        | [] -> None
        | (b : z list) :: r ->
          (match b with
           | x :: y :: _ when List.length b >= 20 && int_of_z x = fst ty && int_of_z y = snd ty ->
             if j = 0 then Some b else pick r (j - 1)
           | _ -> pick r j) in
      let tid = match pick log j with
        | Some b -> List.filteri (fun k _ -> k >= 4 && k < 20) b
        | None -> List.init 16 (fun _ -> zbyte.(0)) in
      out := List.rev_append tid !out
    end else begin
      out := zbyte.(hexval t.[!i] * 16 + hexval t.[!i+1]) :: !out; i := !i + 2
    end
  done;
  List.rev !out

let () = read_lines (fun l ->
  match split_ws l with
  | id :: compat :: user :: pass :: ops ->
    let c = (match compat with "0" -> DRAFT9 | "1" -> GOOGLE | "2" -> MSN | "3" -> OC2007 | _ -> RFC5766) in
    let cfg = { c_compat = c; c_server = addr_of_tok "4c00002010d96"; c_user = bytes_of_hex user;
                c_pwlen = z_of_int (List.length (bytes_of_hex pass)) } in
    let st = ref (init_state cfg) in
    let log = ref [] in            (* most recent first *)
    let b = Buffer.create 1024 in
    Buffer.add_string b id;
    let dead = ref false in
    let emit outs = List.iter (fun o ->
        log := o.o_bytes :: !log;
        Buffer.add_string b (" >" ^ tok_of_addr o.o_to ^ ":" ^ hex_of_bytes o.o_bytes)) outs in
    List.iter (fun op -> if not !dead then begin
      Buffer.add_char b ' ';
      match fields op with
      | "S" :: a :: p :: _ ->
        let ((s', outs), ret) = send !st (addr_of_tok a) (bytes_of_hex p) in
        st := s'; Buffer.add_string b (Printf.sprintf "S%d" (int_of_z ret)); emit outs
      | "B" :: a :: _ ->
        let ((s', outs), ok) = set_peer !st (addr_of_tok a) in
        st := s'; Buffer.add_string b (if ok then "B1" else "B0"); emit outs
      | "R" :: a :: t :: _ ->
        let from = addr_of_tok a in
        (match recv !st from (expand !log t) with
         | Fault -> Buffer.add_string b "R!"; dead := true
         | Ok ((s', outs), r) ->
           st := s';
           (match r with
            | RxNone -> Buffer.add_string b ("R0:" ^ tok_of_addr from ^ ":-:0")
            | RxData h -> Buffer.add_string b (Printf.sprintf "R%d:%s:%s:%d" (if h.h_data = [] then 0 else 1)
                                                 (tok_of_addr h.h_from) (hex_of_bytes h.h_data) (if h.h_sock then 1 else 0)));
           emit outs)
      | "T" :: ms :: _ ->
        (match advance !st (z_of_int (int_of_string ms)) with
         | Unmodelled -> Buffer.add_string b "T?UNMODELLED"; dead := true
         | Advanced (s', outs) -> st := s'; Buffer.add_char b 'T'; emit outs)
      | "K" :: r :: n :: _ ->
        st := cache_op !st (if r = "~" then None else Some (bytes_of_hex r)) (if n = "~" then None else Some (bytes_of_hex n));
        Buffer.add_char b 'K'
      | "M" :: r :: _ -> st := ms_realm_op !st (bytes_of_hex r); Buffer.add_char b 'M'
      | "C" :: v :: _ -> st := ms_conn_op !st (bytes_of_hex v); Buffer.add_char b 'C'
      | _ -> Buffer.add_char b '?'
    end) ops;
    print_endline (Buffer.contents b)
  | _ -> ())
