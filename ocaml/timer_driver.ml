(* line: <id> T N|R s0 u0 s1 u1 ... (N = R: stun_timer_start_reliable) ; output: <id> rem:ret:delay:retrans ... (same as harness/timer_h.c) *)
let () = read_lines (fun l ->
  match split_ws l with
  | id :: t :: n :: s0 :: u0 :: rest ->
    let zi x = z_of_int (int_of_string x) in
    let tm = ref (if n = "R" then timer_start_reliable { sec = zi s0; usec = zi u0 } (zi t)
                  else timer_start { sec = zi s0; usec = zi u0 } (zi t) (zi n)) in
    let b = Buffer.create 256 in
    Buffer.add_string b id;
    let rec go = function
      | s :: u :: tl ->
        let now = { sec = zi s; usec = zi u } in
        let rem = remainder !tm now in
        let (t', r) = refresh !tm now in
        tm := t';
        Buffer.add_string b (Printf.sprintf " %d:%s:%d:%d" (int_of_z rem)
          (match r with SUCCESS -> "S" | RETRANSMIT -> "R" | TIMEOUT -> "T") (int_of_z t'.delay) (int_of_z t'.retrans));
        go tl
      | _ -> () in
    go rest; print_endline (Buffer.contents b)
  | _ -> ())
