(* model side of harness/stun_h.c: same program lines, same output tokens *)
let zi = z_of_int
let iz = int_of_z
let compat_of = function 0 -> RFC3489 | 1 -> RFC5389 | 2 -> MSICE2 | _ -> OC2007
let cfg_of compat flags =
  let b k = flags land (1 lsl k) <> 0 in
  { cf_compat = compat_of compat; f_short_term = b 0; f_long_term = b 1; f_use_fpr = b 2; f_add_software = b 3;
    f_ignore_creds = b 4; f_no_ind_auth = b 5; f_force_validater = b 6; f_no_aligned = b 7; f_consent = b 8 }
let dump_types = [0x0001; 0x0006; 0x0008; 0x0009; 0x000d; 0x0013; 0x0014; 0x0015; 0x0020; 0x0024; 0x0025;
                  0x8022; 0x8028; 0x8029; 0x802a; 0x8070]
exception Faulted
let ok = function Ok a -> a | Fault -> raise Faulted
let fretn = function FOk _ -> 0 | FNotFound -> 1 | FInvalid -> 2 | FNoSpace -> 3 | FUnsupported -> 4
let vstat = function V_SUCCESS -> 0 | V_NOT_STUN -> 1 | V_INCOMPLETE -> 2 | V_BAD_REQUEST -> 3 | V_UNAUTHORIZED_BAD_REQUEST -> 4
  | V_UNAUTHORIZED -> 5 | V_UNMATCHED_RESPONSE -> 6 | V_UNKNOWN_REQUEST_ATTRIBUTE -> 7 | V_UNKNOWN_ATTRIBUTE -> 8 | V_FORBIDDEN -> 9
let n_valid a = List.length (List.filter (fun x -> x <> None) a.a_sent)
let addr_s r = match r with
  | FOk ((fam, port), a) -> Printf.sprintf "0:%d:%d:%s" (iz fam) (iz port) (hex_of_bytes a)
  | o -> string_of_int (fretn o)

let dump b c buf extra ms =
  let add = Buffer.add_string b in
  add (Printf.sprintf " c%d m%d k%d" (iz (ok (msg_class buf))) (iz (ok (msg_method buf))) (if has_cookie buf then 1 else 0));
  List.iter (fun t -> match ok (find c buf (zi t)) with
    | Some (o, l) -> add (Printf.sprintf " %x=%d:%d" t (iz o) (iz l))
    | None -> add (Printf.sprintf " %x=n" t)) (dump_types @ [extra]);
  (match ok (find_error c buf) with FOk code -> add (Printf.sprintf " e=0:%d" (iz code)) | o -> add (Printf.sprintf " e=%d:-1" (fretn o)));
  (match ok (find32 c buf (zi 0x24)) with FOk v -> add (Printf.sprintf " p=0:%s" (string_of_z v)) | o -> add (Printf.sprintf " p=%d:0" (fretn o)));
  (match ok (find64 c buf (zi 0x802a)) with FOk v -> add (Printf.sprintf " g=0:%s" (string_of_z v)) | o -> add (Printf.sprintf " g=%d:0" (fretn o)));
  add (Printf.sprintf " f=%d" (fretn (ok (find_flag c buf (zi 0x25)))));
  (match ok (find_string c buf (zi 6) (zi 10)) with
   | FOk v -> (* the harness prints up to the first NUL (strlen) *)
     let rec upto = function [] -> [] | x :: tl -> if x = Z0 then [] else x :: upto tl in
     add (" s=0:" ^ hex_of_bytes (upto v))
   | o -> add (Printf.sprintf " s=%d:-" (fretn o)));
  add (" a=" ^ addr_s (ok (find_addr c buf (zi 1) (zi 128))));
  add (" x=" ^ addr_s (ok (find_xor_addr c buf (zi 0x20) (zi 128))));
  add (Printf.sprintf " y=%d" (fretn (ok (find_xor_addr c buf (zi extra) (zi 16)))));
  add (" K=" ^ (match ms.m_key with Some k -> hex_of_bytes k | None -> "n"))

let () = read_lines (fun l ->
  match split_ws l with
  | id :: compat :: flags :: known :: ops ->
    let c = cfg_of (int_of_string compat) (int_of_string flags) in
    let kb = bytes_of_hex known in
    let rec pairs = function a :: b :: tl -> zi (iz a * 256 + iz b) :: pairs tl | _ -> [] in
    let ag = ref (agent_init c (pairs kb)) in
    let bbuf = ref None and bms = ref m0 and blen = ref 0 and rbuf = ref None and rms = ref m0 and closed = ref false in
    let out = Buffer.create 1024 in
    Buffer.add_string out id;
    let add = Buffer.add_string out in
    let ops = ref ops in
    let next () = match !ops with x :: tl -> ops := tl; x | [] -> failwith "eol" in
    (try
      while !ops <> [] do
        let op = next () in
        (match op with
        | ";" -> ()
        | "VF" ->
          let padded = next () <> "0" in let total = int_of_string (next ()) in let _nt = next () in
          let n = int_of_string (next ()) in
          let bufs = List.init n (fun _ -> bytes_of_hex (next ())) in
          (match ok (validate_fast bufs (zi total) padded) with
           | Len n -> add (Printf.sprintf " vf=%d" (iz n)) | Incomplete -> add " vf=0" | Invalid -> add " vf=-1")
        | "VL" ->
          let padded = next () <> "0" in let b = bytes_of_hex (next ()) in
          (match ok (validate_len b padded) with
           | Len n -> add (Printf.sprintf " vl=%d" (iz n)) | Incomplete -> add " vl=0" | Invalid -> add " vl=-1")
        | "V" ->
          let vt = next () in let extra = int_of_string ("0x" ^ next ()) in let hx = next () in
          let vd = if vt = "n" then None else if vt = "-" then Some [] else
            Some (List.map (fun e -> match String.split_on_char ':' e with
              | [u; p] -> (bytes_of_hex u, bytes_of_hex p) | _ -> failwith "vd") (String.split_on_char ',' vt)) in
          let b = if hx = "@" then (match !bbuf with Some bb -> List.filteri (fun i _ -> i < !blen) bb | None -> []) else bytes_of_hex hx in
          let ((st, a'), ms) = ok (validate !ag b vd) in
          ag := a';
          add (Printf.sprintf " v=%d n%d" (vstat st) (n_valid a'));
          if st <> V_NOT_STUN && st <> V_INCOMPLETE then begin dump out c b extra ms; rbuf := Some b; rms := ms end
        | "IR" | "II" ->
          let meth = int_of_string (next ()) in let cap = int_of_string (next ()) in let idb = bytes_of_hex (next ()) in
          let buf0 = List.init cap (fun _ -> zi 0xee) in
          let r = ok ((if op = "IR" then init_request else init_indication) !ag buf0 (zi meth) idb) in
          blen := 0; bms := m0; closed := false;
          (match r with Some b -> bbuf := Some b; add " i=1" | None -> bbuf := None; add " i=0")
        | "IS" | "IE" ->
          let cap = int_of_string (next ()) in let code = if op = "IE" then int_of_string (next ()) else 0 in
          (match !rbuf with
           | None -> add " i=x"
           | Some req ->
             let buf0 = List.init cap (fun _ -> zi 0xee) in
             let r = ok (if op = "IS" then init_response !ag buf0 req else init_error !ag buf0 req (zi code) (strerror (zi code))) in
             blen := 0; bms := !rms; closed := false;
             (match r with Some b -> bbuf := Some b; add " i=1" | None -> bbuf := None; add " i=0"))
        | "SW" ->
          let s = bytes_of_hex (next ()) in
          let rec upto = function [] -> [] | x :: tl -> if x = Z0 then [] else x :: upto tl in
          ag := { !ag with a_software = Some (upto s) }; add " sw"
        | "AB" | "A32" | "A64" | "AF" | "AE" | "AA" | "AX" ->
          let ts = next () in
          let ty = if op = "AE" then int_of_string ts else int_of_string ("0x" ^ ts) in
          let f = (match op with
            | "AB" -> let d = bytes_of_hex (next ()) in (fun b -> append_bytes c b (zi ty) d)
            | "A32" -> let v = z_of_string (next ()) in (fun b -> append32 c b (zi ty) v)
            | "A64" -> let v = z_of_string (next ()) in (fun b -> append64 c b (zi ty) v)
            | "AF" -> (fun b -> append_flag c b (zi ty))
            | "AE" -> (fun b -> append_error c b (zi ty) (strerror (zi ty)))
            | _ -> let fam = int_of_string (next ()) in let port = int_of_string (next ()) in let a = bytes_of_hex (next ()) in
                   if op = "AA" then (fun b -> append_addr c b (zi ty) (zi fam) (zi port) a)
                   else (fun b -> append_xor_addr c b (zi ty) (zi fam) (zi port) a)) in
          (match (if !closed then None else !bbuf) with
           | None -> add " a=x"
           | Some b ->
             let r = ok (f b) in
             (match r with FOk b' -> bbuf := Some b' | _ -> ());
             let cur = (match !bbuf with Some b -> b | None -> []) in
             add (Printf.sprintf " a=%d:%d" (fretn r) (iz (ok (msg_length cur)))))
        | "F" ->
          let kx = next () in
          let k = if kx = "n" then None else if kx = "e" then Some [] else Some (bytes_of_hex kx) in
          (match (if !closed then None else !bbuf) with
           | None -> add " f=x"
           | Some b ->
             let ((r, a'), ms) = ok (finish !ag b !bms k) in
             ag := a'; bms := ms; closed := true;
             (match r with
              | Some (n, bf) -> bbuf := Some bf; blen := iz n;
                add (Printf.sprintf " f=%d:%s:n%d" (iz n) (hex_of_bytes (List.filteri (fun i _ -> i < iz n) bf)) (n_valid a'))
              | None -> blen := 0; add (Printf.sprintf " f=0:-:n%d" (n_valid a')));
             if !blen = 0 then bbuf := None)
        | "FG" ->
          let idb = bytes_of_hex (next ()) in
          let (a', r) = forget_transaction !ag idb in ag := a'; add (Printf.sprintf " fg=%d" (if r then 1 else 0))
        | o -> add (" ?" ^ o))
      done
    with Faulted -> add " FAULT");
    print_endline (Buffer.contents out)
  | _ -> ())
