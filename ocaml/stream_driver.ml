(* C17 model driver: same line protocol as harness/stream_h.c (see there). *)
let zi = z_of_int
let hex_to_list s =
  if s = "-" then [] else
  let n = String.length s / 2 in
  let hv c = if c <= '9' then Char.code c - 48 else (Char.code c lor 32) - 87 in
  let rec go i acc = if i < 0 then acc else go (i - 1) (zi (hv s.[2 * i] * 16 + hv s.[2 * i + 1]) :: acc) in
  go (n - 1) []
let add_hex b l =
  if l = [] then Buffer.add_char b '-' else
  List.iter (fun z -> Buffer.add_string b (Printf.sprintf "%02x" (int_of_z z))) l
let rec llen = function [] -> 0 | _ :: t -> 1 + llen t
let bufs_of s = List.map hex_to_list (String.split_on_char ',' s)

let print_evs b evs =
  let pend = ref None in
  List.iter (fun e -> match e with
    | Rd (_, req, got) -> Buffer.add_string b (" q" ^ string_of_z req ^ "/" ^ string_of_z got)
    | Up (d, z) -> pend := Some (d, z)
    | Ret r ->
      Buffer.add_string b (" R" ^ string_of_z r);
      (match !pend with
       | Some (d, z) ->
         Buffer.add_string b (":" ^ string_of_int (List.length d) ^ ":"); add_hex b d;
         if int_of_z z >= 0 then Buffer.add_string b (":z" ^ string_of_z z);
         pend := None
       | None -> ())
    | Dn d -> Buffer.add_string b " D"; add_hex b d
    | Snd r -> Buffer.add_string b (" S" ^ string_of_z r)
    | Mark _ -> ()
    | Hdr _ -> ()
    | EFault -> Buffer.add_string b " FAULT"
    | ELive -> Buffer.add_string b " LIVE") evs

let parse_script s =
  if s = "-" then [] else
  List.map (fun t -> match t.[0] with
    | 'a' -> KAcc (z_of_string (String.sub t 1 (String.length t - 1)))
    | 'w' -> KWould | 'f' -> KFail | _ -> KErr) (String.split_on_char ',' s)

let print_qevs b evs =
  List.iter (fun e -> match e with
    | QK d -> Buffer.add_string b " K"; add_hex b d
    | QKe k -> Buffer.add_string b (match k with KWould -> " Kw" | KFail -> " Kf" | _ -> " Kx")
    | QS r -> Buffer.add_string b (" S" ^ string_of_z r)
    | QW -> Buffer.add_string b " W" | QZ -> Buffer.add_string b " Z"
    | QC c -> Buffer.add_string b (if c then " C1" else " C0")) evs

(* a layer over the scripted socket: [mk ()] gives a fresh instance as (events of construction, feed, send);
   a "|" token starts over on a fresh instance *)
let cur_cap = ref (zi 70000)      (* size of the caller's receive buffer (op c:<cap>; H only) *)
let layer_ops_init b mk ops =
  let fresh () = cur_cap := zi 70000; let (e0, fd, sd) = mk () in print_evs b e0; (fd, sd) in
  let inst = ref (fresh ()) in
  List.iter (fun op ->
    if op = "|" then begin Buffer.add_string b " |"; inst := fresh () end
    else if String.length op >= 2 && op.[1] = ':' then begin
      let (feedf, sendf) = !inst in
      let arg = String.sub op 2 (String.length op - 2) in
      match op.[0] with
      | 'f' -> print_evs b (feedf (hex_to_list arg))
      | 's' -> print_evs b (sendf false (bufs_of arg))
      | 'r' -> print_evs b (sendf true (bufs_of arg))
      | 'c' -> let c = int_of_string arg in cur_cap := zi (if c < 1 || c > 70000 then 70000 else c)
      | _ -> ()
    end) ops
let layer_ops b mk ops = layer_ops_init b (fun () -> let (fd, sd) = mk () in ([], fd, sd)) ops

let () = read_lines (fun l ->
  match split_ws l with
  | id :: "Q" :: g :: sc :: ops ->
    let b = Buffer.create 1024 in
    Buffer.add_string b id;
    let g = z_of_string g in
    let st = ref { queue = []; script = parse_script sc } in
    List.iter (fun op ->
      let o = match op.[0] with
        | 's' -> Some (QSend (false, bufs_of (String.sub op 2 (String.length op - 2))))
        | 'r' -> Some (QSend (true, bufs_of (String.sub op 2 (String.length op - 2))))
        | 'w' -> Some QWritable | 'c' -> Some QCanSend | 'z' -> Some QDrain | _ -> None in
      match o with
      | Some o -> (match o with QSend _ -> Buffer.add_string b " +" | _ -> ());
        let (s', e) = q_step g !st o in st := s'; print_qevs b e
      | None -> ()) ops;
    print_endline (Buffer.contents b)
  | id :: "T" :: compat :: ops ->
    let b = Buffer.create 1024 in
    Buffer.add_string b id;
    layer_ops b (fun () ->
      let w = ref { inner = turn_init (z_of_string compat); dead = Z0 } in
      ((fun chunk -> let (w', e) = feed turn_body !w chunk in w := w'; e),
       (fun rel bufs -> turn_send !w.inner rel bufs))) ops;
    print_endline (Buffer.contents b)
  | id :: "P" :: compat :: ops ->
    let b = Buffer.create 1024 in
    Buffer.add_string b id;
    let c = z_of_string compat in
    layer_ops_init b (fun () ->
      let w = ref { inner = pssl_init c; dead = Z0 } in
      ([Dn (pssl_hello c)],
       (fun chunk -> let (w', e) = feed pssl_body !w chunk in w := w'; e),
       (fun rel bufs -> let (s', e) = pssl_send !w.inner rel bufs in w := { !w with inner = s' }; e))) ops;
    print_endline (Buffer.contents b)
  | id :: "S" :: g :: user :: pass :: addr :: ops ->
    let b = Buffer.create 1024 in
    Buffer.add_string b id;
    let _ = g in
    let o s = if s = "-" then None else Some (hex_to_list s) in
    layer_ops_init b (fun () ->
      let s0 = socks_init (o user) (o pass) (hex_to_list addr) in
      let w = ref { inner = s0; dead = Z0 } in
      ([Dn (socks_greeting s0)],
       (fun chunk -> let (w', e) = feed socks_body !w chunk in w := w'; e),
       (fun rel bufs -> let (s', e) = socks_send !w.inner rel bufs in w := { !w with inner = s' }; e))) ops;
    print_endline (Buffer.contents b)
  | id :: "H" :: g :: ops ->
    let b = Buffer.create 1024 in
    Buffer.add_string b id;
    let g = z_of_string g in
    layer_ops_init b (fun () ->
      let w = ref { inner = http_init; dead = Z0 } in
      ([],
       (fun chunk -> let (w', e) = http_feed !cur_cap g !w chunk in w := w'; e),
       (fun rel bufs -> let (s', e) = http_send !w.inner rel bufs in w := { !w with inner = s' }; e))) ops;
    print_endline (Buffer.contents b)
  | id :: _ -> print_endline (id ^ " ?")
  | _ -> ())
