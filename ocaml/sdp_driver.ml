(* C18 model driver: same line protocol as harness/sdp_h.c.
   tokens:  address  -  |  4:<ip>:<port>  |  6:<32 hex digits>:<port>:<scope>
            candidate  <type>/<transport>/<priority>/<component>/<foundation hex|->/<address>/<base address>
            byte strings in hex, "-" = empty, "~" = NULL *)
let zi = z_of_int
let iz = int_of_z
let str_of_hex h =
  if h = "-" then [] else List.init (String.length h / 2) (fun i -> zi (int_of_string ("0x" ^ String.sub h (2 * i) 2)))
let hex_of_str l = if l = [] then "-" else String.concat "" (List.map (fun z -> Printf.sprintf "%02x" (iz z land 255)) l)
let ios = int_of_string
let addr_of_tok t = match String.split_on_char ':' t with
  | ["-"] -> AUnspec
  | ["4"; ip; p] -> A4 (zi (ios ip), zi (ios p))
  | ["6"; h; p; sc] -> A6 (List.init 8 (fun i -> zi (ios ("0x" ^ String.sub h (4 * i) 4))), zi (ios p), zi (ios sc))
  | _ -> failwith ("bad address token " ^ t)
let tok_of_addr = function
  | AUnspec -> "-"
  | A4 (ip, p) -> Printf.sprintf "4:%d:%d" (iz ip) (iz p)
  | A6 (ws, p, sc) -> Printf.sprintf "6:%s:%d:%d" (String.concat "" (List.map (fun w -> Printf.sprintf "%04x" (iz w)) ws)) (iz p) (iz sc)
let cand_of_tok t = match String.split_on_char '/' t with
  | [ty; tr; pr; co; f; a; b] ->
    { c_type = zi (ios ty); c_transport = zi (ios tr); c_prio = zi (ios pr); c_comp = zi (ios co);
      c_found = str_of_hex f; c_addr = addr_of_tok a; c_base = addr_of_tok b }
  | _ -> failwith ("bad candidate token " ^ t)
let tok_of_cand c =
  Printf.sprintf "%d/%d/%d/%d/%s/%s/%s" (iz c.c_type) (iz c.c_transport) (iz c.c_prio) (iz c.c_comp)
    (hex_of_str c.c_found) (tok_of_addr c.c_addr) (tok_of_addr c.c_base)
let b2 b = if b then "1" else "0"
let presult_str = function
  | PFault -> "F"
  | PNone -> "N"
  | PCand (c, crit) -> "C" ^ b2 crit ^ " " ^ tok_of_cand c
let opt_hex = function None -> "~" | Some s -> hex_of_str s
let rec take k l = if k = 0 then ([], l) else match l with x :: tl -> let (a, b) = take (k - 1) tl in (x :: a, b) | [] -> failwith "short line"

(* remote candidate lists of every component of the receiving streams *)
let remote_dump b (sts : rstream list) =
  List.iter (fun r ->
    Buffer.add_string b (" | " ^ hex_of_str r.r_ufrag ^ " " ^ hex_of_str r.r_pwd);
    for k = 1 to iz r.r_ncomp do
      let l = remote_of_component r.r_offered (zi k) in
      Buffer.add_string b (Printf.sprintf " #%d" (List.length l));
      List.iter (fun c -> Buffer.add_string b (" " ^ tok_of_cand c)) l
    done) sts

let () = read_lines (fun l ->
  match split_ws l with
  | [id; "A"; h] ->
    (match from_string (str_of_hex h) with
     | None -> print_endline (id ^ " N")
     | Some a -> print_endline (Printf.sprintf "%s %s %s p%s l%s v%d" id (tok_of_addr a) (hex_of_str (to_string a))
                                  (b2 (addr_is_private a)) (b2 (addr_is_linklocal a)) (iz (addr_ip_version a))))
  | [id; "T"; a] ->
    let a = addr_of_tok a in
    let s = to_string a in
    print_endline (Printf.sprintf "%s %s p%s l%s %s" id (hex_of_str s) (b2 (addr_is_private a)) (b2 (addr_is_linklocal a))
                     (match from_string s with None -> "N" | Some x -> tok_of_addr x))
  | [id; "E"; a; b] ->
    let a = addr_of_tok a and b = addr_of_tok b in
    print_endline (Printf.sprintf "%s %s %s %s %s %s" id (b2 (addr_equal a b)) (b2 (addr_equal_no_port a b)) (b2 (to_string a = to_string b))
                     (b2 (addr_equal b a)) (b2 (addr_equal_no_port b a)))
  | [id; "G"; c] ->
    let line = gen_candidate (cand_of_tok c) in
    print_endline (id ^ " " ^ hex_of_str line ^ " " ^ presult_str (parse_candidate_full line))
  | [id; "P"; h] -> print_endline (id ^ " " ^ presult_str (parse_candidate_full (str_of_hex h)))
  | [id; "R"; h] ->
    let ((uf, pw), cs) = parse_remote_stream_sdp (str_of_hex h) in
    print_endline (Printf.sprintf "%s U%s W%s %d%s" id (opt_hex uf) (opt_hex pw) (List.length cs)
                     (String.concat "" (List.map (fun c -> " " ^ tok_of_cand c) cs)))
  | id :: "S" :: n :: rest ->
    let rest = ref rest in
    let next () = match !rest with x :: tl -> rest := tl; x | [] -> failwith "short S line" in
    let sts = List.init (ios n) (fun _ ->
      let name = next () in let uf = next () in let pw = next () in let nc = ios (next ()) in
      let comps = List.init nc (fun _ -> let k = ios (next ()) in List.init k (fun _ -> cand_of_tok (next ()))) in
      { s_name = (if name = "~" then None else Some (str_of_hex name)); s_lufrag = str_of_hex uf; s_lpwd = str_of_hex pw; s_comps = comps }) in
    let sdp = gen_sdp sts in
    let recv = List.map (fun s -> { r_ufrag = []; r_pwd = []; r_ncomp = zi (List.length s.s_comps); r_offered = [] }) sts in
    let (ret, out) = parse_remote_sdp recv sdp in
    let b = Buffer.create 1024 in
    Buffer.add_string b (Printf.sprintf "%s %s ret=%d" id (hex_of_str sdp) (iz ret));
    remote_dump b out;
    print_endline (Buffer.contents b)
  | id :: "Q" :: n :: rest ->
    let (ncs, rest) = take (ios n) rest in
    let h = (match rest with [h] -> h | _ -> failwith "bad Q line") in
    let recv = List.map (fun k -> { r_ufrag = []; r_pwd = []; r_ncomp = zi (ios k); r_offered = [] }) ncs in
    let (ret, out) = parse_remote_sdp recv (str_of_hex h) in
    let b = Buffer.create 1024 in
    Buffer.add_string b (Printf.sprintf "%s ret=%d" id (iz ret));
    remote_dump b out;
    print_endline (Buffer.contents b)
  | _ -> ())
