(* model side of harness/ptcp_h.c *)
let zi = z_of_int
let iz = int_of_z
let digest l = List.fold_left (fun h b -> (h * 33 + iz b) land 0xffffff) 5381 l
let gen_data n seed base = List.init n (fun i -> let k = base + i in zi ((seed * 31 + k * 7 + (k lsr 8)) land 0xff))
let shut_num = function SD_NONE -> 0 | SD_GRACEFUL -> 1 | SD_FORCEFUL -> 2
let b2i b = if b then 1 else 0

let mk cfg =
  match List.map int_of_string (String.split_on_char ':' cfg) with
  | [rb; sb; nd; ad; fa; ws; cv] ->
    let s = sock_init (zi cv) in
    let s = { s with support_fin_ack = (fa <> 0); support_wnd_scale = (ws <> 0); use_nagling = (nd = 0); ack_delay = zi ad } in
    let ap m s = (match run m s with Ok ((_, s'), _) -> s' | Fault -> failwith "fault in setup") in
    let s = if rb <> 0 then ap (set_rcv_buf (zi rb)) s else s in
    let s = if sb <> 0 then ap (set_snd_buf (zi sb)) s else s in
    s
  | _ -> failwith "cfg"

let summary b s =
  Buffer.add_string b (Printf.sprintf " [%d %d %d %d %d %d %d %d %d %d %d %d %d %d %d %d %d%d%d %d %d %d]"
    (iz (st_num s.state)) (iz s.snd_una) (iz s.snd_nxt) (iz s.rcv_nxt) (iz s.snd_wnd) (iz s.rcv_wnd) (iz s.cwnd) (iz s.ssthresh)
    (iz s.rx_rto) (iz s.rto_base) (iz s.t_ack) (iz s.dup_acks) (iz s.mss) (iz s.sbuf_n) (iz s.rbuf.rb_n)
    (List.length s.slist) (b2i s.support_fin_ack) (shut_num s.shutdown) (b2i s.shutdown_reads) (iz s.swnd_scale) (iz s.rbuf_len) (iz s.rbuf.rb_cap))

let () = read_lines (fun l ->
  match split_ws l with
  | id :: ca :: cb :: ops ->
    let socks = [| mk ca; mk cb |] in
    let pkts = ref [||] in
    let pend = ref [] and hist = ref [] in
    let sent_total = [| 0; 0 |] in
    let now = ref 1000 in
    let out = Buffer.create 4096 in
    Buffer.add_string out id;
    let add = Buffer.add_string out in
    let aborted = ref false in
    List.iter (fun op -> if not !aborted then begin
      let w = if String.length op > 1 && op.[1] = 'B' then 1 else 0 in
      let arg = if String.length op > 2 then String.sub op 2 (String.length op - 2) else "" in
      let rest1 = String.sub op 1 (String.length op - 1) in
      add (Printf.sprintf " %c" op.[0]);
      (* run a monadic action on socket w; print result with pr; then events *)
      let exec who m pr =
        (match run m socks.(who) with
         | Fault -> add "=ABORT"; aborted := true
         | Ok ((a, s'), evs) ->
           socks.(who) <- s';
           add (pr a);
           List.iter (function
             | EvPacket p ->
               let idx = Array.length !pkts in
               pkts := Array.append !pkts [| (p, who) |];
               pend := !pend @ [idx];
               let hdr = List.filteri (fun i _ -> i < 24) p and pay = List.filteri (fun i _ -> i >= 24) p in
               add (Printf.sprintf " P%d=%s:%d:%d" idx (String.concat "" (List.map (fun b -> Printf.sprintf "%02x" (iz b)) hdr)) (List.length pay) (digest pay))
             | EvOpened -> add " O" | EvReadable -> add " R" | EvWritable -> add " W"
             | EvClosed e -> add (Printf.sprintf " C%d" (iz e))) evs;
           summary out s') in
      let take k = (let i = List.nth !pend k in pend := List.filteri (fun j _ -> j <> k) !pend; i) in
      let deliver i pr = (let (p, from) = !pkts.(i) in hist := i :: !hist; exec (1 - from) (notify_packet p (zi !now)) pr) in
      let znow = zi !now in
      (match op.[0] with
       | 'T' -> now := int_of_string rest1
       | 'c' -> exec w (connect znow) (fun b -> Printf.sprintf "=%d" (b2i b))
       | 's' -> (match String.split_on_char ':' arg with
                 | [ln; seed] -> let d = gen_data (int_of_string ln) (int_of_string seed) sent_total.(w) in
                   exec w (send d znow) (fun r -> let r = iz r in if r > 0 then sent_total.(w) <- sent_total.(w) + r;
                                          Printf.sprintf "=%d:%d" r (if r < 0 then iz socks.(w).error else 0))
                 | _ -> add "=?")
       | 'r' ->
         (match run (recv (zi (int_of_string arg)) znow) socks.(w) with
          | Fault -> add "=ABORT"; aborted := true
          | Ok (((r, d), s'), evs) ->
            let r = iz r in
            let pre = Printf.sprintf "=%d:%d:%s" r (if r < 0 then iz s'.error else 0) (hex_of_bytes (if r > 0 then d else [])) in
            exec w (fun _ _ -> Ok (((), s'), evs)) (fun () -> pre))
       | 'h' -> exec w (shutdown_sock (zi (int_of_string arg)) znow) (fun () -> "")
       | 'x' -> exec w (close_sock (int_of_string arg <> 0) znow) (fun () -> "")
       | 'k' -> exec w (notify_clock znow) (fun () -> "")
       | 'n' -> exec w (get_next_clock (z_of_string arg) znow) (function Some t -> "=" ^ string_of_z t | None -> "=F")
       | 'm' -> exec w (notify_mtu (zi (int_of_string arg))) (fun () -> "")
       | 'l' -> socks.(w) <- { socks.(w) with wr_limit = zi (int_of_string arg) }; summary out socks.(w)
       | 'd' -> let i = int_of_string rest1 in
         if i < Array.length !pkts then begin let (p, from) = !pkts.(i) in exec (1 - from) (notify_packet p znow) (fun b -> Printf.sprintf "=%d" (b2i b)) end
         else add "=x"
       | 'j' -> (match String.index_opt arg ':' with
           | _ ->
             let i = int_of_string (List.hd (String.split_on_char ':' arg)) in
             if i < Array.length !pkts then begin
               let (p, _) = !pkts.(i) in
               let muts = (match String.index_opt arg ':' with
                 | Some k -> List.filter_map (fun m -> match String.split_on_char '=' m with [o; v] -> Some (int_of_string o, int_of_string v) | _ -> None)
                               (String.split_on_char ',' (String.sub arg (k + 1) (String.length arg - k - 1)))
                 | None -> []) in
               let p' = List.mapi (fun idx b -> match List.assoc_opt idx muts with Some v -> zi v | None -> b) p in
               (* later assignments win, as in the harness *)
               let p' = List.mapi (fun idx b -> match List.filter (fun (o, _) -> o = idx) muts with [] -> b | l -> zi (snd (List.nth l (List.length l - 1)))) p' in
               (* "<off>~<delta>": the 32-bit big-endian field at off decreased by delta, applied in order after the byte assignments *)
               let subs = (match String.index_opt arg ':' with
                 | Some k -> List.filter_map (fun m -> match String.split_on_char '~' m with [o; v] -> Some (int_of_string o, int_of_string v) | _ -> None)
                               (String.split_on_char ',' (String.sub arg (k + 1) (String.length arg - k - 1)))
                 | None -> []) in
               let p' = List.fold_left (fun pk (off, d) ->
                   if off + 4 <= List.length pk then begin
                     let a = Array.of_list (List.map iz pk) in
                     let f = ((a.(off) lsl 24) lor (a.(off+1) lsl 16) lor (a.(off+2) lsl 8) lor a.(off+3)) in
                     let f = (f - d) land 0xffffffff in
                     a.(off) <- (f lsr 24) land 255; a.(off+1) <- (f lsr 16) land 255; a.(off+2) <- (f lsr 8) land 255; a.(off+3) <- f land 255;
                     List.map zi (Array.to_list a) end else pk) p' subs in
               exec w (notify_packet p' znow) (fun b -> Printf.sprintf "=%d" (b2i b)) end
             else add "=x")
       | 'i' -> exec w (notify_packet (bytes_of_hex arg) znow) (fun b -> Printf.sprintf "=%d" (b2i b))
       | 'N' -> if !pend <> [] then begin let i = take 0 in deliver i (fun b -> Printf.sprintf "%d=%d" i (b2i b)) end else add "=x"
       | 'X' -> if !pend <> [] then begin let i = take 0 in add (string_of_int i) end else add "=x"
       | 'Z' -> let k = List.length !pend in pend := []; add (string_of_int k)
       | 'D' -> if !pend <> [] then begin let i = take (int_of_string rest1 mod List.length !pend) in deliver i (fun b -> Printf.sprintf "%d=%d" i (b2i b)) end else add "=x"
       | 'U' -> if !hist <> [] then begin let i = List.nth !hist (int_of_string rest1 mod List.length !hist) in deliver i (fun b -> Printf.sprintf "%d=%d" i (b2i b)) end else add "=x"
       | 'Q' ->
         let n = int_of_string rest1 in
         let evs = Buffer.create 256 in
         (* events only, summaries at the end *)
         let quiet who m = (match run m socks.(who) with
           | Fault -> aborted := true
           | Ok ((_, s'), es) ->
             socks.(who) <- s';
             List.iter (function
               | EvPacket p ->
                 let idx = Array.length !pkts in
                 pkts := Array.append !pkts [| (p, who) |]; pend := !pend @ [idx];
                 let hdr = List.filteri (fun i _ -> i < 24) p and pay = List.filteri (fun i _ -> i >= 24) p in
                 Buffer.add_string evs (Printf.sprintf " P%d=%s:%d:%d" idx (String.concat "" (List.map (fun b -> Printf.sprintf "%02x" (iz b)) hdr)) (List.length pay) (digest pay))
               | EvOpened -> Buffer.add_string evs " O" | EvReadable -> Buffer.add_string evs " R" | EvWritable -> Buffer.add_string evs " W"
               | EvClosed e -> Buffer.add_string evs (Printf.sprintf " C%d" (iz e))) es) in
         for _ = 1 to n do
           let guard = ref 0 in
           while !pend <> [] && !guard < 4000 && not !aborted do
             incr guard; let i = take 0 in let (p, from) = !pkts.(i) in hist := i :: !hist; quiet (1 - from) (notify_packet p (zi !now))
           done;
           now := (!now + 250) land 0xffffffff; if !now = 0 then now := 1;
           if not !aborted then quiet 0 (notify_clock (zi !now));
           if not !aborted then quiet 1 (notify_clock (zi !now))
         done;
         if !aborted then add "=ABORT" else begin add (Buffer.contents evs); summary out socks.(0); summary out socks.(1) end
       | _ -> add "=?")
    end) ops;
    print_endline (Buffer.contents out)
  | _ -> ())
