let zs = z_of_string
let out id o = print_endline (id ^ (match o with Some v -> " " ^ string_of_z v | None -> " F"))
let () = read_lines (fun l ->
  match split_ws l with
  | id :: "P" :: [a; b; c] -> out id (nice_candidate_ice_priority_full (zs a) (zs b) (zs c))
  | id :: "L" :: [a; b; c] -> out id (nice_candidate_ice_local_preference_full (zs a) (zs b) (zs c))
  | id :: "M" :: [a; b; c; d] -> out id (nice_candidate_ms_ice_local_preference_full (zs a) (zs b) (zs c) (zs d))
  | id :: "Q" :: [g; d] -> out id (nice_candidate_pair_priority (zs g) (zs d))
  | id :: "A" :: [c; l; r] -> out id (agent_candidate_pair_priority (zs c) (zs l) (zs r))
  | id :: "X" :: [a; b] -> out id (conn_check_compare (zs a) (zs b))
  | id :: (("C" | "D" | "T") as cmd) :: [rel; nat; ty; tr; tnn; tty; tpref; ipidx; nips; comp] ->
    let ip = if int_of_string ipidx < int_of_string nips then ipidx else nips in
    (match cmd with
     | "C" -> out id (nice_candidate_ice_priority (zs rel) (zs nat) (zs ty) (zs tty) (zs tr) (zs tnn) (zs tpref) (zs ip) (zs comp))
     | "D" -> out id (nice_candidate_ms_ice_priority (zs rel) (zs nat) (zs ty) (zs tty) (zs tr) (zs tnn) (zs tpref) (zs ip) (zs comp))
     | _ -> out id (nice_candidate_ice_type_preference (zs rel) (zs nat) (zs ty) (zs tty) (zs tr)))
  | id :: "Y" :: [rel; tr; ipidx; nips; comp] ->
    (* RFC 8445 7.1.1: the priority a peer-reflexive candidate learnt from this check would get (same transport, base and component) *)
    let ip = if int_of_string ipidx < int_of_string nips then ipidx else nips in
    let v = match nice_candidate_ice_priority (zs rel) (zs "0") c_NICE_CANDIDATE_TYPE_PEER_REFLEXIVE (zs "0") (zs tr) (zs "0") (zs "0") (zs ip) (zs comp) with Some v -> string_of_z v | None -> "F" in
    print_endline (id ^ " " ^ v ^ " " ^ v)
  | id :: "R" :: [rel; nat; tr; tty] ->
    let f ty = match nice_candidate_ice_type_preference (zs rel) (zs nat) ty (zs tty) (zs tr) with Some v -> " " ^ string_of_z v | None -> " F" in
    print_endline (id ^ f c_NICE_CANDIDATE_TYPE_HOST ^ f c_NICE_CANDIDATE_TYPE_PEER_REFLEXIVE ^ f c_NICE_CANDIDATE_TYPE_SERVER_REFLEXIVE ^ f c_NICE_CANDIDATE_TYPE_RELAYED)
  | id :: "S" :: c0 :: ops ->
    let s = ref { controlling = (c0 <> "0"); clist = [] } in
    let b = Buffer.create 256 in
    Buffer.add_string b id;
    List.iter (fun o ->
      let o' = (match o.[0] with
        | 'a' -> (match String.split_on_char ':' (String.sub o 1 (String.length o - 1)) with
                  | [i; l; r] -> Add (zs i, zs l, zs r) | _ -> failwith "bad add")
        | 'r' -> let n = int_of_string (String.sub o 1 (String.length o - 1)) in
                 let rec nat_of k = if k = 0 then O else S (nat_of (k - 1)) in Remove (nat_of n)
        | _ -> SetRole (o.[1] <> '0')) in
      s := step !s o';
      Buffer.add_string b " |";
      List.iter (fun p -> Buffer.add_string b (" " ^ string_of_z p.id ^ ":" ^ string_of_z p.prio)) !s.clist) ops;
    print_endline (Buffer.contents b)
  | _ -> ())
